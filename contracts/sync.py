"""Sidecar contracts for signac/sync.py (C13, C14, C15)."""
import filecmp
import os
import re
import shutil

import z3

from pyvc.core import CutSeq, NativeStub, OpaqueStr, RaiseSignal, SBool, Sym, Unsupported
from pyvc.interp import LoopSpec, Obj
from pyvc.theory_j import EX_idx, FA_idx
from pyvc.verify import Contract, Ctx

SY = "signac.sync"

# ----------------------------------------------------------------------------- directory comparison model (one sub-directory level)
Fn = z3.DeclareSort("Fn")              # an entry name inside the compared sub-directory
Sub = z3.DeclareSort("Sub")            # a relative sub-directory of the job workspace
excl = z3.Function("excl", Fn, z3.BoolSort())              # some exclude pattern re.match()es the name
src_isfile = z3.Function("src_isfile", Sub, Fn, z3.BoolSort())
strat = z3.Function("strat", Sub, Fn, z3.BoolSort())       # what the strategy answers for (subdir/name)
subjoin = z3.Function("subjoin", Sub, Fn, Sub)             # os.path.join(subdir, name)


TOP = z3.Const("TOP", Sub)             # the job directory itself


class SFn(Sym):
    def __init__(self, e):
        self.e = e

    def sym_isinstance(self, ex, cls):
        return cls in (str, object)


class SSub(Sym):
    def __init__(self, e):
        self.e = e

    def sym_isinstance(self, ex, cls):
        return cls in (str, object)


class SNameSeq(Sym):
    def __init__(self, tag, label):
        self.n = z3.Int(f"n_{tag}")
        self.at = z3.Function(f"name_{tag}", z3.IntSort(), Fn)
        self.label = label

    def wf(self):
        a, b = z3.Ints("na nb")
        return [self.n >= 0, z3.ForAll([a, b], z3.Implies(z3.And(0 <= a, a < b, b < self.n), self.at(a) != self.at(b)))]

    def sym_iter(self, ex):
        return CutSeq(self.n, lambda interp, i: SFn(self.at(i)), label=self.label)

    def has(self, f):
        return EX_idx(0, self.n, lambda k: self.at(k) == f)


class SDiff(Sym):
    """filecmp.dircmp(a, b) / _dircmp_deep(a, b): left_only, diff_files, subdirs (trusted contract of filecmp)"""

    def __init__(self, deep, a, b):
        self.deep, self.a, self.b = deep, a, b
        self.left_only = SNameSeq("left_only", "diff.left_only")
        self.diff_files = SNameSeq("diff_files", "diff.diff_files")
        self.subdirs = SNameSeq("subdirs", "diff.subdirs")

    def sym_getattr(self, ex, name):
        if name in ("left_only", "diff_files", "subdirs"):
            return getattr(self, name)
        raise Unsupported(f"dircmp.{name}")


class SJobRef(Sym):
    def __init__(self, side):
        self.side = side

    def sym_getattr(self, ex, name):
        if name == "path":
            return SPath(self.side, None, None)
        if name == "fn":
            def fn(x):
                if isinstance(x, SSub):
                    return SPath(self.side, x, None)
                if isinstance(x, SRel):          # job.fn(os.path.join(subdir, name)) == os.path.join(job.path, subdir, name)
                    return SPath(self.side, x.sub, x.fn)
                if isinstance(x, SFn):           # a name directly under the job directory: no sub-directory
                    return SPath(self.side, SSub(TOP), x)
                raise Unsupported("job.fn argument")
            return NativeStub(fn, "job.fn")
        raise Unsupported(f"job.{name} in _sync_job_workspaces")


class SPath(Sym):
    def __init__(self, side, sub, fn):
        self.side, self.sub, self.fn = side, sub, fn


class SRel(Sym):
    def __init__(self, sub, fn):
        self.sub, self.fn = sub, fn


class SExclude(Sym):
    """the exclude list: only `bool(exclude)` and `any(re.match(p, fn) for p in exclude)` are observable"""

    def __init__(self):
        self.nonempty = z3.Bool("exclude_nonempty")

    def sym_truth(self, ex):
        return self.nonempty


class Effects:
    """ghost log of proxy calls made at this level: characteristic functions over names"""

    def __init__(self):
        self.copied = lambda f: z3.BoolVal(False)
        self.tree = lambda f: z3.BoolVal(False)
        self.recursed = lambda f: z3.BoolVal(False)
        self.bad = []

    def add(self, kind, e):
        cur = getattr(self, kind)
        setattr(self, kind, lambda f, cur=cur, e=e: z3.Or(cur(f), f == e))

    def havoc(self, ex, tag):
        for kind in ("copied", "tree", "recursed"):
            fn = z3.Function(ex.fresh_name(f"{kind}_{tag}"), Fn, z3.BoolSort())
            setattr(self, kind, lambda f, fn=fn: fn(f))


class SyncCtx(Ctx):
    def __init__(self, contract, case):
        super().__init__(contract, case)
        self.externals[filecmp.dircmp] = lambda interp, a, b, *r, **k: self.mk_diff(interp, False, a, b)
        self.externals[os.path.join] = self.x_join
        self.externals[os.path.isfile] = self.x_isfile
        self.externals[re.match] = lambda interp, p, s, *a: (_ for _ in ()).throw(Unsupported("re.match outside the exclude test"))

    def mk_diff(self, interp, deep, a, b):
        g = self.ghost
        ok = isinstance(a, SPath) and isinstance(b, SPath) and a.side == "src" and b.side == "dst" and a.fn is None and b.fn is None
        same_sub = ok and isinstance(a.sub, SSub) and isinstance(b.sub, SSub) and z3.eq(a.sub.e, g["sub"]) and z3.eq(b.sub.e, g["sub"])
        interp.ex.oblige(self.target + "#call[dircmp]:compares_source_and_destination_at_the_current_subdir", z3.BoolVal(bool(same_sub)))
        d = SDiff(deep, a, b)
        g["diff"] = d
        for seq in (d.left_only, d.diff_files, d.subdirs):
            for ax in seq.wf():
                interp.ex.assume(ax)
        interp.ex.assumptions_used.add("filecmp.dircmp contract: left_only / diff_files / subdirs are duplicate-free listings; `deep` = content comparison (class _dircmp_deep), "
                                       "shallow = size+mtime signature")
        return d

    def instantiate(self, interp, rc, args, kw):
        if rc.name == "_dircmp_deep":
            return self.mk_diff(interp, True, *args)
        return NotImplemented

    def x_join(self, interp, *parts):
        p0 = parts[0]
        if isinstance(p0, SPath) and p0.sub is None and len(parts) == 3 and isinstance(parts[1], SSub) and isinstance(parts[2], SFn):
            return SPath(p0.side, parts[1], parts[2])
        if isinstance(p0, SSub) and len(parts) == 2 and isinstance(parts[1], SFn):
            return SRel(p0, parts[1])
        raise Unsupported("os.path.join shape in _sync_job_workspaces")

    def x_isfile(self, interp, p):
        if isinstance(p, SPath) and p.side == "src" and p.fn is not None:
            return SBool(src_isfile(p.sub.e, p.fn.e))
        raise Unsupported("isfile shape")

    def comprehension(self, interp, node, frame):
        import ast
        # [re.match(p, fn) for p in exclude]  ->  a one-element list holding "some pattern matches fn"
        if isinstance(node, ast.ListComp) and len(node.generators) == 1:
            it = interp.ev(node.generators[0].iter, frame)
            if isinstance(it, SExclude):
                src_txt = ast.unparse(node.elt)
                tgt = node.generators[0].target
                if isinstance(tgt, ast.Name) and src_txt == f"re.match({tgt.id}, fn)":
                    fn = interp.lookup(frame, "fn")
                    return [SBool(excl(fn.e))]
                raise Unsupported(f"exclude test `{src_txt}` is not re.match(pattern, fn)")
        return NotImplemented


class SyncJobWorkspaces(Contract):
    """one directory level of the file walk (the recursive call is replaced by this contract on the sub-directory)"""
    target = f"{SY}._sync_job_workspaces"
    properties = ("C13", "C14", "C15")
    ctx_class = SyncCtx

    def cases(self):
        return [{"recursive": r, "deep": d, "strategy": s} for r in (True, False) for d in (False, True) for s in ("none", "some")]

    def loops(self, case):
        def E(interp):
            return interp.ctx.ghost["eff"]

        def D(interp):
            return interp.ctx.ghost["diff"]

        f = z3.Const("lf", Fn)

        def spec_left(interp, upto):
            d, sub = D(interp), interp.ctx.ghost["sub"]
            inpre = lambda x: EX_idx(0, upto, lambda k: d.left_only.at(k) == x)
            return (lambda x: z3.And(inpre(x), z3.Not(z3.And(interp.ctx.ghost["ex_nonempty"], excl(x))), src_isfile(sub, x)),
                    lambda x: z3.And(inpre(x), z3.Not(z3.And(interp.ctx.ghost["ex_nonempty"], excl(x))), z3.Not(src_isfile(sub, x)), z3.BoolVal(case["recursive"])))

        def spec_diff(interp, upto):
            d, sub = D(interp), interp.ctx.ghost["sub"]
            inpre = lambda x: EX_idx(0, upto, lambda k: d.diff_files.at(k) == x)
            if case["strategy"] == "none":
                return lambda x: z3.BoolVal(False)
            return lambda x: z3.And(inpre(x), z3.Not(z3.And(interp.ctx.ghost["ex_nonempty"], excl(x))), strat(sub, x))

        def none_ok(interp, upto):
            """without a strategy the walk only gets past excluded differing files"""
            d = D(interp)
            if case["strategy"] != "none":
                return z3.BoolVal(True)
            return FA_idx(0, upto, lambda k: z3.And(interp.ctx.ghost["ex_nonempty"], excl(d.diff_files.at(k))))

        def inv_left(interp, fr, i, seq):
            e = E(interp)
            c, t = spec_left(interp, i)
            return z3.ForAll([f], z3.And(e.copied(f) == c(f), e.tree(f) == t(f), z3.Not(e.recursed(f))))

        def inv_diff(interp, fr, i, seq):
            e, d = E(interp), D(interp)
            c, t = spec_left(interp, d.left_only.n)
            c2 = spec_diff(interp, i)
            return z3.And(none_ok(interp, i), z3.ForAll([f], z3.And(e.copied(f) == z3.Or(c(f), c2(f)), e.tree(f) == t(f), z3.Not(e.recursed(f)))))

        def inv_sub(interp, fr, i, seq):
            e, d = E(interp), D(interp)
            c, t = spec_left(interp, d.left_only.n)
            c2 = spec_diff(interp, d.diff_files.n)
            return z3.And(none_ok(interp, d.diff_files.n),
                          z3.ForAll([f], z3.And(e.copied(f) == z3.Or(c(f), c2(f)), e.tree(f) == t(f),
                                                e.recursed(f) == z3.And(z3.BoolVal(case["recursive"]), EX_idx(0, i, lambda k: d.subdirs.at(k) == f)))))

        hv = lambda interp, fr, tag: interp.ctx.ghost["eff"].havoc(interp.ex, tag)
        sc = ("fn", "fn_src", "fn_dst", "_subdir")
        return {"diff.left_only": LoopSpec("left_only", inv_left, havoc={"$eff": hv}, scratch=sc),
                "diff.diff_files": LoopSpec("diff_files", inv_diff, havoc={"$eff": hv}, scratch=sc),
                "diff.subdirs": LoopSpec("subdirs", inv_sub, havoc={"$eff": hv}, scratch=sc)}

    def setup(self, interp, case):
        ex, ctx = interp.ex, interp.ctx
        g = ctx.ghost
        sub = z3.Const("subdir", Sub)
        eff = Effects()
        excl_obj = SExclude()
        g.update({"sub": sub, "eff": eff, "ex_nonempty": excl_obj.nonempty})
        src, dst = SJobRef("src"), SJobRef("dst")

        def copy(a, b):
            ok = (isinstance(a, SPath) and isinstance(b, SPath) and a.side == "src" and b.side == "dst" and a.fn is not None and b.fn is not None
                  and z3.eq(a.fn.e, b.fn.e) and z3.eq(a.sub.e, sub) and z3.eq(b.sub.e, sub))
            ex.oblige(self.oname("call[copy]:source_entry_to_the_same_relative_place_in_the_destination"), z3.BoolVal(bool(ok)))
            if ok:
                eff.add("copied", a.fn.e)

        def copytree(a, b):
            ok = (isinstance(a, SPath) and isinstance(b, SPath) and a.side == "src" and b.side == "dst" and a.fn is not None and b.fn is not None
                  and z3.eq(a.fn.e, b.fn.e) and z3.eq(a.sub.e, sub) and z3.eq(b.sub.e, sub))
            ex.oblige(self.oname("call[copytree]:source_directory_to_the_same_relative_place_in_the_destination"), z3.BoolVal(bool(ok)))
            if ok:
                eff.add("tree", a.fn.e)

        def strategy(s, d, rel):
            ok = s is src and d is dst and isinstance(rel, SRel) and z3.eq(rel.sub.e, sub)
            ex.oblige(self.oname("call[strategy]:asked_about_(src,dst,subdir/name)"), z3.BoolVal(bool(ok)))
            return SBool(strat(sub, rel.fn.e)) if ok else False

        g["copy"], g["copytree"] = NativeStub(copy, "copy"), NativeStub(copytree, "copytree")
        g["strategy"] = NativeStub(strategy, "strategy") if case["strategy"] == "some" else None
        g["exclude"], g["src"], g["dst"] = excl_obj, src, dst

        def rec(interp_, b):
            # the recursive call, by contract: must forward every option unchanged and descend into subdir/_subdir
            sd = b["subdir"]
            name = interp_.lookup_sub = None
            ok = (b["src"] is src and b["dst"] is dst and b["strategy"] is g["strategy"] and b["exclude"] is excl_obj and b["copy"] is g["copy"]
                  and b["copytree"] is g["copytree"] and b["recursive"] is case["recursive"] and b["deep"] is case["deep"] and isinstance(sd, SRel) and z3.eq(sd.sub.e, sub))
            ex.oblige(self.oname("call[recursion]:forwards_strategy_exclude_proxy_recursive_deep_and_descends_into_subdir/name"), z3.BoolVal(bool(ok)))
            if ok:
                eff.add("recursed", sd.fn.e)
            return None
        self.recursive_stub = None
        ctx.callee_contracts[self.target] = rec
        kw = dict(src=src, dst=dst, strategy=g["strategy"], exclude=excl_obj, copy=g["copy"], copytree=g["copytree"], recursive=case["recursive"], deep=case["deep"], subdir=SSub(sub))
        return [], kw, {"eff": eff, "sub": sub}

    def make_ctx(self, case):
        ctx = super().make_ctx(case)
        orig_policy = ctx.policy

        def policy(qual):
            if qual == self.target and ctx.ghost.get("entered"):
                return "contract", ctx.callee_contracts[self.target]
            if qual == self.target:
                ctx.ghost["entered"] = True
                return "inline", None
            return orig_policy(qual)
        ctx.policy = policy
        ctx.ghost["entered"] = True   # the driver enters the target directly; every call from inside is the recursive one
        return ctx

    def post(self, interp, case, pre, outcome):
        from signac.errors import FileSyncConflict
        ex, ctx = interp.ex, interp.ctx
        g = ctx.ghost
        d, e, sub = g.get("diff"), g["eff"], g["sub"]
        f = z3.Const("pf", Fn)
        if d is None:
            ex.oblige(self.oname("ensures:directories_are_compared"), False)
            return
        ex.oblige(self.oname("ensures:deep_selects_content_comparison"), z3.BoolVal(d.deep is case["deep"]))
        nonex = lambda x: z3.Not(z3.And(g["ex_nonempty"], excl(x)))
        if outcome[0] == "return":
            ex.oblige(self.oname("ensures:left_only_files_copied_iff_not_excluded"),
                      z3.ForAll([f], z3.Implies(z3.And(d.left_only.has(f), src_isfile(sub, f)), e.copied(f) == nonex(f))))
            ex.oblige(self.oname("ensures:left_only_directories_copied_iff_recursive_and_not_excluded"),
                      z3.ForAll([f], z3.Implies(z3.And(d.left_only.has(f), z3.Not(src_isfile(sub, f))), e.tree(f) == z3.And(nonex(f), z3.BoolVal(case["recursive"])))))
            ex.oblige(self.oname("ensures:differing_file_overwritten_iff_not_excluded_and_strategy_says_so"),
                      z3.ForAll([f], z3.Implies(z3.And(d.diff_files.has(f), z3.Not(d.left_only.has(f))),
                                                e.copied(f) == (z3.And(nonex(f), strat(sub, f)) if case["strategy"] == "some" else z3.BoolVal(False)))))
            ex.oblige(self.oname("ensures:nothing_else_is_copied"),
                      z3.ForAll([f], z3.And(z3.Implies(e.copied(f), z3.Or(d.left_only.has(f), d.diff_files.has(f))), z3.Implies(e.tree(f), d.left_only.has(f)))))
            ex.oblige(self.oname("ensures:common_subdirectories_visited_iff_recursive"),
                      z3.ForAll([f], e.recursed(f) == z3.And(z3.BoolVal(case["recursive"]), d.subdirs.has(f))))
            if case["strategy"] == "none":
                ex.oblige(self.oname("ensures:without_strategy_returns_only_if_no_unexcluded_differing_file"),
                          z3.ForAll([f], z3.Implies(d.diff_files.has(f), z3.Not(nonex(f)))))
        else:
            exc = outcome[1]
            ok = isinstance(exc, FileSyncConflict) and case["strategy"] == "none"
            ex.oblige(self.oname("raises:FileSyncConflict_only_without_strategy"), z3.BoolVal(ok))
            if ok:
                # raised before any effect on that file: no differing file has been copied
                ex.oblige(self.oname("raises:FileSyncConflict_before_touching_any_differing_file"),
                          z3.ForAll([f], z3.Implies(z3.And(d.diff_files.has(f), z3.Not(d.left_only.has(f))), z3.Not(e.copied(f)))))
                fname = getattr(exc, "filename", None)
                ex.oblige(self.oname("raises:FileSyncConflict_names_an_unexcluded_differing_file"),
                          z3.And(d.diff_files.has(fname.e), nonex(fname.e)) if isinstance(fname, SFn) else z3.BoolVal(False))


CONTRACTS = [SyncJobWorkspaces()]


# ============================================================================= DocSync.ByKey.__call__  (one nesting level)
Doc = z3.DeclareSort("Doc")
Key = z3.DeclareSort("Key")
Val = z3.DeclareSort("Val")
DKN = z3.DeclareSort("DKN")                                   # a dotted key name / prefix string
d_has = z3.Function("d_has", Doc, Key, z3.BoolSort())
d_get = z3.Function("d_get", Doc, Key, Val)
v_eq = z3.Function("v_eq", Val, Val, z3.BoolSort())           # Python == on document values
v_ismap = z3.Function("v_ismap", Val, z3.BoolSort())          # isinstance(value, Mapping)
v_doc = z3.Function("v_doc", Val, Doc)                        # the mapping behind a mapping value
doc_eq = z3.Function("doc_eq", Doc, Doc, z3.BoolSort())       # src == dst on whole documents
cat = z3.Function("cat", DKN, Key, DKN)                       # root + key          (a full dotted key name)
catdot = z3.Function("catdot", DKN, Key, DKN)                 # root + key + "."    (the prefix for the next level)
keydot = z3.Function("keydot", Key, DKN)                      # key + "."           (what a buggy recursion would pass)
ROOT = z3.Const("ROOT", DKN)                                  # ""
ks = z3.Function("key_strategy", DKN, z3.BoolSort())          # truthiness of key_strategy(name)


class SKey(Sym):
    def __init__(self, e):
        self.e = e

    def sym_binop(self, ex, op, other, reflected=False):
        if op == "Add" and other == "." and not reflected:
            return SDKN(keydot(self.e))
        if op == "Add" and isinstance(other, SDKN) and reflected:
            return SDKN(cat(other.e, self.e), base=(other.e, self.e))
        if op == "Add" and other == "" and reflected:
            return SDKN(cat(ROOT, self.e), base=(ROOT, self.e))
        raise Unsupported("key string arithmetic")


class SDKN(Sym):
    def __init__(self, e, base=None):
        self.e, self.base = e, base

    def sym_binop(self, ex, op, other, reflected=False):
        if op == "Add" and isinstance(other, SKey) and not reflected:
            return SDKN(cat(self.e, other.e), base=(self.e, other.e))
        if op == "Add" and other == "." and not reflected and self.base is not None:
            return SDKN(catdot(*self.base))
        raise Unsupported("key string arithmetic")

    def sym_truth(self, ex):
        return self.e != ROOT      # only the empty string is falsy

    def sym_hashable(self):
        return True


class SVal(Sym):
    def __init__(self, e):
        self.e = e

    def sym_eq(self, ex, other):
        if isinstance(other, SVal):
            return SBool(v_eq(self.e, other.e))
        raise Unsupported("value ==")

    def sym_isinstance(self, ex, cls):
        from collections.abc import Mapping
        if cls is Mapping:
            return SBool(v_ismap(self.e))
        raise Unsupported("isinstance on a document value")


class SDocRef(Sym):
    """a document-like object: src (read only) or dst (gated proxy, or raw nested mapping)"""

    def __init__(self, e, role, gated, log):
        self.e, self.role, self.gated, self.log = e, role, gated, log

    def sym_eq(self, ex, other):
        if isinstance(other, SDocRef):
            return SBool(doc_eq(self.e, other.e))
        raise Unsupported("doc ==")

    def sym_contains(self, ex, k):
        if isinstance(k, SKey):
            return SBool(d_has(self.e, k.e))
        raise Unsupported("in doc")

    def sym_getitem(self, ex, k):
        if not isinstance(k, SKey):
            raise Unsupported("doc[...] key")
        v = SVal(d_get(self.e, k.e))
        v.origin = (self, k.e)
        return v

    def sym_setitem(self, ex, k, v):
        if self.role != "dst" or not isinstance(k, SKey) or not isinstance(v, SVal):
            raise Unsupported("doc[...] = ... shape")
        self.log.append((k.e, v.e, self.gated))

    def sym_getattr(self, ex, name):
        if name == "items" and self.role == "src":
            return NativeStub(lambda: SDocItems(self), "doc.items")
        if name == "dry_run" and self.gated:
            return DRY
        raise Unsupported(f"doc.{name}")

    def sym_isinstance(self, ex, cls):
        if getattr(cls, "__name__", "") == "_DocProxy":
            return bool(self.gated)
        from collections.abc import Mapping
        return cls in (Mapping, object)


class _Dry:
    """the proxy's dry_run flag (identity matters: the nested proxy must carry the same flag)"""


DRY = _Dry()


class SDocItems(Sym):
    def __init__(self, d):
        self.d = d

    def sym_iter(self, ex):
        n = z3.Int("n_srckeys")
        at = z3.Function("srckey", z3.IntSort(), Key)
        self.n, self.at = n, at
        d = self.d

        def elem(interp, i):
            v = SVal(d_get(d.e, at(i)))
            v.origin = (d, at(i))
            return (SKey(at(i)), v)
        interp_ghost = d.log  # noqa
        return CutSeq(n, elem, label="src.items()")


class ByKeyCtx(Ctx):
    def str_join(self, interp, sep, parts):
        return OpaqueStr()

    def dep_getattr(self, interp, o, name):
        raise Unsupported(f"attribute {name}")


class ByKeyCall(Contract):
    target = f"{SY}.DocSync.ByKey.__call__"
    properties = ("C13", "C14", "C15")
    ctx_class = ByKeyCtx
    inline = (f"{SY}._log_more", f"{SY}._DocProxy.__init__")

    def cases(self):
        return [{"strategy": s, "level": l} for s in ("none", "some") for l in ("top", "nested")]

    def loops(self, case):
        k = z3.Const("lk", Key)
        n = z3.Const("ln", DKN)

        def inv(interp, fr, i, seq):
            g = interp.ctx.ghost
            W, S, R = g["written"], g["skipset"].member, g["recursed"]
            items = g["items"]
            seen = lambda x: EX_idx(0, i, lambda j: items.at(j) == x)
            w, sk, rc = self.spec(case, g)
            return z3.And(z3.ForAll([k], W(k) == z3.And(seen(k), w(k))), z3.ForAll([k], R(k) == z3.And(seen(k), rc(k))),
                          z3.ForAll([n], S(n) == z3.Or(g["skipped0"](n), z3.Exists([k], z3.And(seen(k), sk(k), n == cat(g["root"], k))))))

        def hv(interp, fr, tag):
            g, ex = interp.ctx.ghost, interp.ex
            fw = z3.Function(ex.fresh_name("W"), Key, z3.BoolSort())
            fr_ = z3.Function(ex.fresh_name("R"), Key, z3.BoolSort())
            fs = z3.Function(ex.fresh_name("S"), DKN, z3.BoolSort())
            g["written"], g["recursed"], g["skipped"] = (lambda x: fw(x)), (lambda x: fr_(x)), (lambda x: fs(x))
            g["skipset"].member = g["skipped"]
            g["log"].clear()
            g["reclog"].clear()
        return {"src.items()": LoopSpec("keys", inv, havoc={"$ghost": hv}, scratch=("key", "value"), heap_frame=lambda interp, fr, writes: self.flush(interp, fr))}

    @staticmethod
    def spec(case, g):
        """what must happen to source key k at this level (from the property)"""
        src, dst, root = g["src"].e, g["dst"].e, g["root"]
        differs = lambda x: z3.And(d_has(dst, x), z3.Not(v_eq(d_get(dst, x), d_get(src, x))))
        selected = (lambda x: ks(cat(root, x))) if case["strategy"] == "some" else (lambda x: z3.BoolVal(False))
        written = lambda x: z3.Or(z3.Not(d_has(dst, x)), z3.And(differs(x), z3.Not(v_ismap(d_get(src, x))), selected(x)))
        skipped = lambda x: z3.And(differs(x), z3.Not(v_ismap(d_get(src, x))), z3.Not(selected(x)))
        recursed = lambda x: z3.And(differs(x), v_ismap(d_get(src, x)))
        return written, skipped, recursed

    def flush(self, interp, fr):
        """fold the concrete per-iteration logs into the ghost characteristic functions (called at the end of a loop-body run)"""
        g, ex = interp.ctx.ghost, interp.ex
        for (k, v, gated) in g["log"]:
            ex.oblige(self.oname("body:writes_the_source_value_under_the_same_key_through_the_gated_destination"),
                      z3.And(v == d_get(g["src"].e, k), z3.BoolVal(bool(gated))))
            cur = g["written"]
            g["written"] = lambda x, cur=cur, k=k: z3.Or(cur(x), x == k)
        g["log"].clear()
        for k in g["reclog"]:
            cur = g["recursed"]
            g["recursed"] = lambda x, cur=cur, k=k: z3.Or(cur(x), x == k)
        g["reclog"].clear()

    def setup(self, interp, case):
        from pyvc.theory_j import SymSet
        ex, ctx = interp.ex, interp.ctx
        g = ctx.ghost
        rp = interp.repo
        rp.load(SY)
        selfo = Obj(rp.classes[f"{SY}.DocSync.ByKey"])
        log, reclog = [], []
        src = SDocRef(z3.Const("srcdoc", Doc), "src", False, log)
        dst = SDocRef(z3.Const("dstdoc", Doc), "dst", True, log)
        root = ROOT if case["level"] == "top" else z3.Const("rootname", DKN)
        if case["level"] == "nested":
            ex.assume(root != ROOT)
        sk0 = z3.Function("skipped0", DKN, z3.BoolSort())
        skipset = SymSet(lambda x: sk0(x), DKN)
        if case["level"] == "top":
            ex.assume(z3.ForAll([z3.Const("s0", DKN)], z3.Not(sk0(z3.Const("s0", DKN)))))
        # string facts: a full name is never empty
        kk, rr = z3.Const("ak", Key), z3.Const("ar", DKN)
        ex.assume(z3.ForAll([rr, kk], z3.And(cat(rr, kk) != ROOT, catdot(rr, kk) != ROOT, keydot(kk) != ROOT)))

        def strategy(name):
            ok = isinstance(name, SDKN)
            ex.oblige(self.oname("call[key_strategy]:asked_with_a_dotted_name"), z3.BoolVal(ok))
            return SBool(ks(name.e)) if ok else False
        selfo.fields.update(key_strategy=NativeStub(strategy, "key_strategy") if case["strategy"] == "some" else None, skipped_keys=skipset)
        items = SDocItems(src)
        src_items_seq = items.sym_iter(ex)
        ex.assume(items.n >= 0)
        a, b = z3.Ints("ka kb")
        x = z3.Const("kx", Key)
        ex.assume(z3.ForAll([a, b], z3.Implies(z3.And(0 <= a, a < b, b < items.n), items.at(a) != items.at(b))))
        ex.assume(z3.ForAll([x], d_has(src.e, x) == EX_idx(0, items.n, lambda j: items.at(j) == x)))
        src.sym_getattr = lambda ex_, name, items=items, src=src: NativeStub(lambda: _Items(items), "doc.items") if name == "items" else (_ for _ in ()).throw(Unsupported(f"doc.{name}"))
        g.update({"src": src, "dst": dst, "root": root, "items": items, "log": log, "reclog": reclog, "skipset": skipset, "skipped0": (lambda n: sk0(n)),
                  "written": (lambda k: z3.BoolVal(False)), "recursed": (lambda k: z3.BoolVal(False)), "skipped": (lambda n: sk0(n)), "self": selfo})

        def rec(interp_, b):
            # recursive call by contract: requires a *gated* destination (so that dry runs stay dry) and the full dotted prefix
            s, d, r = b["src"], b["dst"], b["root"]
            key = getattr(s, "origin", (None, None))[1] if isinstance(s, SVal) else None
            ok_src = isinstance(s, SVal) and getattr(s, "origin", (None,))[0] is src
            gated = False
            if isinstance(d, Obj) and d.cls.name == "_DocProxy":      # a proxy around the nested destination, same dry_run flag
                gated = d.fields.get("dry_run") is DRY
                d = d.fields.get("doc")
            ok_dst = isinstance(d, SVal) and getattr(d, "origin", (None,))[0] is dst and key is not None and z3.eq(d.origin[1], key)
            ex.oblige(self.oname("call[recursion]:descends_into_the_same_key_on_both_sides"), z3.BoolVal(bool(ok_src and ok_dst)))
            ex.oblige(self.oname("call[recursion]:requires_a_gated_destination_(writes_below_must_honour_dry_run)"), z3.BoolVal(bool(gated)),
                      note="dst[key] is the raw nested mapping behind the proxy unless it is wrapped again")
            if key is not None:
                ex.oblige(self.oname("call[recursion]:passes_the_full_dotted_prefix_root+key+dot"), r.e == catdot(root, key) if isinstance(r, SDKN) else z3.BoolVal(False))
                reclog.append(key)
            return None
        ctx.callee_contracts[self.target] = rec
        ctx.ghost["entered"] = True
        args = [selfo, src, dst] + ([] if case["level"] == "top" else [SDKN(root)])
        return args, {}, {"self": selfo}

    def make_ctx(self, case):
        ctx = super().make_ctx(case)
        orig = ctx.policy

        def policy(qual):
            if qual == self.target:
                return "contract", ctx.callee_contracts[self.target]
            return orig(qual)
        ctx.policy = policy
        return ctx

    def post(self, interp, case, pre, outcome):
        from signac.errors import DocumentSyncConflict
        ex, ctx = interp.ex, interp.ctx
        g = ctx.ghost
        self.flush(interp, None)
        k, n = z3.Const("pk", Key), z3.Const("pn", DKN)
        src, dst, root = g["src"], g["dst"], g["root"]
        w, sk, rc = self.spec(case, g)
        inset = lambda x: d_has(src.e, x)
        S = g["skipset"].member
        skipped_spec = lambda nn: z3.Or(g["skipped0"](nn), z3.Exists([k], z3.And(inset(k), sk(k), nn == cat(root, k))))
        equal = doc_eq(src.e, dst.e)
        if outcome[0] == "return":
            ex.oblige(self.oname("ensures:overwritten_iff_absent_or_differing_scalar_selected_by_the_key_strategy"),
                      z3.Implies(z3.Not(equal), z3.ForAll([k], g["written"](k) == z3.And(inset(k), w(k)))))
            ex.oblige(self.oname("ensures:differing_mappings_are_merged_recursively_never_overwritten"),
                      z3.Implies(z3.Not(equal), z3.ForAll([k], g["recursed"](k) == z3.And(inset(k), rc(k)))))
            ex.oblige(self.oname("ensures:unselected_conflicts_recorded_under_their_full_dotted_name"), z3.Implies(z3.Not(equal), z3.ForAll([n], S(n) == skipped_spec(n))))
            ex.oblige(self.oname("ensures:equal_documents_are_left_alone"), z3.Implies(equal, z3.And(z3.ForAll([k], z3.Not(g["written"](k))), z3.ForAll([n], S(n) == g["skipped0"](n)))))
            if case["strategy"] == "none" and case["level"] == "top":
                ex.oblige(self.oname("ensures:without_key_strategy_returns_only_if_nothing_was_skipped"), z3.ForAll([n], z3.Not(S(n))))
        else:
            exc = outcome[1]
            ok = isinstance(exc, DocumentSyncConflict) and case["strategy"] == "none" and case["level"] == "top"
            ex.oblige(self.oname("raises:DocumentSyncConflict_only_at_top_level_without_key_strategy"), z3.BoolVal(ok))
            if ok:
                ex.oblige(self.oname("raises:DocumentSyncConflict_only_if_some_key_conflicts"), z3.Exists([n], S(n)))
                ex.oblige(self.oname("raises:DocumentSyncConflict_carries_the_skipped_keys"), z3.BoolVal(getattr(exc, "keys", None) is g["skipset"]))


class _Items(Sym):
    def __init__(self, items):
        self.items = items

    def sym_iter(self, ex):
        it = self.items
        d = it.d

        def elem(interp, i):
            v = SVal(d_get(d.e, it.at(i)))
            v.origin = (d, it.at(i))
            return (SKey(it.at(i)), v)
        return CutSeq(it.n, elem, label="src.items()")


CONTRACTS.append(ByKeyCall())
