"""Sidecar contract for Project._find_job_ids (C06, C07): how a query reaches the indexer.

The filter is first given its namespace prefixes (_add_prefix, contract AddPrefixEntry) and parsed; job documents are indexed iff the
prefixed filter has a root key in the `doc` namespace (_root_keys, contract RootKeysEntry) -- without them no document condition could
ever match; the indexer is asked with exactly that prefixed filter and its answer is returned unchanged."""
import z3

from pyvc.core import NativeStub, SBool, Sym, Unsupported
from pyvc.verify import Contract, Ctx

PRJ = "signac.project"


class SFlt(Sym):
    def __init__(self, stage, of=None):
        self.stage, self.of = stage, of

    def sym_truth(self, ex):
        if self.stage == "given":
            return z3.Bool("filter_is_non_empty")
        raise Unsupported("truthiness of a derived filter")


class SIdsTok(Sym):
    def __init__(self, kind, src=None):
        self.kind, self.src = kind, src

    def sym_iter(self, ex):
        from pyvc.core import CutSeq
        return CutSeq(z3.Int("n_ids_tok"), lambda interp, i: None)


class SRoots(Sym):
    def __init__(self, of):
        self.of = of

    def sym_contains(self, ex, x):
        if isinstance(x, str):
            return SBool(z3.Bool(f"root_keys_contain[{x}]"))
        raise Unsupported("membership in the root keys")


class FindCtx(Ctx):
    def dictify(self, interp, v):
        if isinstance(v, SFlt) and v.stage == "parsed":
            return SFlt("dict", v)
        raise Unsupported("dict() of this value")

    def listify(self, ex, v, f):
        if f is list and isinstance(v, SIdsTok):
            return ("list-of", v)
        raise Unsupported("list() of this value")

    def instantiate(self, interp, rc, args, kw):
        if rc.name == "_SearchIndexer" and len(args) == 1 and not kw:
            return SIndexerTok(self, args[0])
        return NotImplemented


class SIndexerTok(Sym):
    def __init__(self, ctx, data):
        self.ctx, self.data = ctx, data

    def sym_getattr(self, ex, name):
        if name == "find":
            def find(flt=None):
                self.ctx.ghost["find"] = (self.data, flt)
                return SIdsTok("found-ids", self)
            return NativeStub(find, "indexer.find")
        raise Unsupported(f"indexer.{name}")


class FindJobIds(Contract):
    target = f"{PRJ}.Project._find_job_ids"
    properties = ("C06", "C07", "C08")
    ctx_class = FindCtx

    def cases(self):
        return [{"filter": "None"}, {"filter": "mapping"}]

    def make_ctx(self, case):
        ctx = super().make_ctx(case)
        g = ctx.ghost
        ctx.callee_contracts[f"{PRJ}.Project._job_dirs"] = lambda interp, b: SIdsTok("job-dirs")
        ctx.callee_contracts["signac.filterparse._add_prefix"] = lambda interp, b: SFlt("prefixed", b["filter"]) if not b.get("prefix") or b.get("prefix") == "sp" else (_ for _ in ()).throw(Unsupported("_add_prefix with another prefix"))
        ctx.callee_contracts["signac.filterparse.parse_filter"] = lambda interp, b: SFlt("parsed", b["filter"])
        ctx.callee_contracts["signac.filterparse._root_keys"] = lambda interp, b: SRoots(b["filter"])

        def build(interp, b):
            g["build"] = b["include_job_document"]
            return ("index-data",)
        ctx.callee_contracts[f"{PRJ}.Project._build_index"] = build
        return ctx

    def setup(self, interp, case):
        rp = interp.repo
        rp.load(PRJ)
        from pyvc.interp import Obj
        proj = Obj(rp.classes[f"{PRJ}.Project"])
        flt = None if case["filter"] == "None" else SFlt("given")
        return [proj], {"filter": flt}, {"flt": flt}

    def post(self, interp, case, pre, outcome):
        ex, g = interp.ex, interp.ctx.ghost
        if outcome[0] != "return":
            ex.oblige(self.oname("raises:nothing_of_its_own"), False, note=repr(outcome[1]))
            return
        r = outcome[1]
        nonempty = z3.Bool("filter_is_non_empty") if case["filter"] != "None" else z3.BoolVal(False)
        if "find" not in g:
            ex.oblige(self.oname("ensures:without_a_filter_every_job_directory_is_listed"), z3.And(z3.Not(nonempty), z3.BoolVal(isinstance(r, tuple) and r[0] == "list-of" and isinstance(r[1], SIdsTok) and r[1].kind == "job-dirs")), note=repr(r))
            return
        data, flt = g["find"]
        chain = isinstance(flt, SFlt) and flt.stage == "dict" and flt.of.stage == "parsed" and isinstance(flt.of.of, SFlt) and flt.of.of.stage == "prefixed" and flt.of.of.of is pre["flt"]
        ex.oblige(self.oname("ensures:the_indexer_is_asked_with_the_prefixed_and_parsed_filter"), z3.And(nonempty, z3.BoolVal(bool(chain))), note=repr(flt))
        ex.oblige(self.oname("ensures:its_answer_is_returned_unchanged_as_a_list"), z3.BoolVal(isinstance(r, tuple) and r[0] == "list-of" and isinstance(r[1], SIdsTok) and r[1].kind == "found-ids" and r[1].src.data == ("index-data",)))
        inc = g.get("build")
        ex.oblige(self.oname("ensures:job_documents_are_indexed_iff_the_prefixed_filter_has_a_root_key_in_the_doc_namespace"),
                  inc.e == z3.Bool("root_keys_contain[doc]") if isinstance(inc, SBool) else z3.BoolVal(False), note=repr(inc))


CONTRACTS = [FindJobIds()]
