"""Sidecar contracts for project discovery and the schema-version gate (C19, C20):
signac._config._locate_config_dir, signac._config._raise_if_older_schema, Project._check_schema_compatibility, Project.__init__."""
import os

import z3

from pyvc.core import NativeStub, OpaqueStr, RaiseSignal, SBool, SInt, Sym, Unsupported
from pyvc.interp import LoopSpec, Obj
from pyvc.verify import Contract, Ctx

CFG = "signac._config"
PRJ = "signac.project"

# directory chains: components abstract, only the parent relation matters (axioms of os.path.dirname / abspath: trusted)
Dir = z3.DeclareSort("Dir")
parent = z3.Function("parent", Dir, Dir)
depth = z3.Function("depth", Dir, z3.IntSort())
isanc = z3.Function("isanc", Dir, Dir, z3.BoolSort())      # isanc(x, d): x is d or an ancestor of d
hascfg = z3.Function("hascfg", Dir, z3.BoolSort())         # <d>/.signac/config is a file
resolved = z3.Function("resolved", Dir, Dir)                # os.path.realpath: where symbolic links lead (unrelated to the lexical chain)
legacy = z3.Function("legacy", Dir, z3.BoolSort())         # <d> holds a config of an older layout (v0/v1 signac.rc)


def dir_axioms():
    d, x, y = z3.Consts("ad ax ay", Dir)
    return [z3.ForAll([d], depth(d) >= 0),
            z3.ForAll([d], z3.If(parent(d) == d, depth(d) == 0, depth(parent(d)) == depth(d) - 1)),
            z3.ForAll([d], isanc(d, d)),
            z3.ForAll([x, d], z3.Implies(isanc(x, d), isanc(parent(x), d))),
            z3.ForAll([x, d], z3.Implies(isanc(x, d), depth(x) <= depth(d))),
            z3.ForAll([x, y, d], z3.Implies(z3.And(isanc(x, d), isanc(y, d), depth(x) == depth(y)), x == y))]


class LDir(Sym):
    def __init__(self, e):
        self.e = e

    def sym_eq(self, ex, other):
        if isinstance(other, LDir):
            return SBool(self.e == other.e)
        return False

    def sym_truth(self, ex):
        return True

    def sym_is(self, ex, other):
        if other is None:
            return False
        raise Unsupported("is")

    def sym_isinstance(self, ex, cls):
        return cls in (str, object)


class LCfgFile(Sym):
    def __init__(self, d):
        self.d = d


class DirCtx(Ctx):
    def __init__(self, contract, case):
        super().__init__(contract, case)
        self.externals[os.path.abspath] = lambda interp, p: p if isinstance(p, (LDir, LCfgFile)) else (_ for _ in ()).throw(Unsupported("abspath"))
        self.externals[os.path.dirname] = lambda interp, p: LDir(parent(p.e)) if isinstance(p, LDir) else (_ for _ in ()).throw(Unsupported("dirname"))
        self.externals[os.path.realpath] = lambda interp, p: LDir(resolved(p.e)) if isinstance(p, LDir) else (_ for _ in ()).throw(Unsupported("realpath"))
        self.externals[os.path.join] = self.x_join
        self.externals[os.path.isfile] = self.x_isfile

    def x_join(self, interp, a, b):
        if isinstance(a, LDir) and b == os.path.join(".signac", "config"):
            return LCfgFile(a.e)
        raise Unsupported("path join shape")

    def x_isfile(self, interp, p):
        if isinstance(p, LCfgFile):
            interp.ex.assumptions_used.add("os.path.dirname/abspath axioms: parent relation with decreasing depth, ancestors of a directory form a chain")
            return SBool(hascfg(p.d))
        raise Unsupported("isfile shape")


def stub_raise_if_older(interp, b):
    from signac.errors import IncompatibleSchemaVersion
    root = b["root"]
    if not isinstance(root, LDir):
        raise Unsupported("_raise_if_older_schema argument")
    if interp.ex.decide(legacy(root.e), "legacy-config-here"):
        raise RaiseSignal(IncompatibleSchemaVersion("legacy"))
    return None


class LocateConfigDir(Contract):
    target = f"{CFG}._locate_config_dir"
    properties = ("C19", "C20")
    ctx_class = DirCtx
    inline = (f"{CFG}._get_project_config_fn",)
    callees = {f"{CFG}._raise_if_older_schema": stub_raise_if_older}

    def loops(self, case):
        def cur(interp, fr):
            v = interp.lookup(fr, "search_path")
            if not isinstance(v, LDir):
                raise Unsupported("search_path is not a directory term")
            return v.e

        def hv(interp, fr, tag):
            return LDir(z3.Const(interp.ex.fresh_name("cur"), Dir))

        def inv1(interp, fr, i, seq):
            s, c = interp.ctx.ghost["start"], cur(interp, fr)
            x = z3.Const("ix", Dir)
            return z3.And(isanc(c, s), z3.ForAll([x], z3.Implies(z3.And(isanc(x, s), depth(x) > depth(c)), z3.Not(hascfg(x)))))

        def inv2(interp, fr, i, seq):
            s, c = interp.ctx.ghost["start"], cur(interp, fr)
            x = z3.Const("ix", Dir)
            return z3.And(isanc(c, s), z3.ForAll([x], z3.Implies(isanc(x, s), z3.Not(hascfg(x)))),
                          z3.ForAll([x], z3.Implies(z3.And(isanc(x, s), depth(x) > depth(c)), z3.Not(legacy(x)))))

        calls = {"n": 0}

        def pick(interp, fr, i, seq):
            return inv1(interp, fr, i, seq)
        var = lambda interp, fr: depth(cur(interp, fr))
        return {"while True#0": LoopSpec("search-config", inv1, havoc={"search_path": hv, "up": hv}, variant=var),
                "while True#1": LoopSpec("search-legacy", inv2, havoc={"search_path": hv, "up": hv}, variant=var)}

    def make_ctx(self, case):
        ctx = super().make_ctx(case)
        counter = {"n": 0}
        orig = ctx.loop_spec

        def loop_spec(func_qual, node, frame, label=None):
            import ast
            if isinstance(node, ast.While) and ast.unparse(node.test) == "True":
                # the two `while True` loops are told apart by their position in the function body
                key = getattr(node, "_pyvc_ord", None)
                if key is None:
                    fn = ctx.ghost["fn_node"]
                    whiles = [n for n in ast.walk(fn) if isinstance(n, ast.While)]
                    whiles.sort(key=lambda n: n.lineno)
                    key = whiles.index(node)
                return ctx.loops.get(f"while True#{key}")
            return orig(func_qual, node, frame, label)
        ctx.loop_spec = loop_spec
        return ctx

    def setup(self, interp, case):
        ex, ctx = interp.ex, interp.ctx
        for a in dir_axioms():
            ex.assume(a)
        s = z3.Const("start", Dir)
        ctx.ghost["start"] = s
        ctx.ghost["fn_node"] = interp.repo.func(self.target).node
        return [LDir(s)], {}, {"s": s}

    def post(self, interp, case, pre, outcome):
        from signac.errors import IncompatibleSchemaVersion
        ex = interp.ex
        s = pre["s"]
        x = z3.Const("px", Dir)
        if outcome[0] == "return":
            r = outcome[1]
            if r is None:
                ex.oblige(self.oname("ensures:None_only_if_no_enclosing_directory_has_a_config_or_legacy_config"),
                          z3.ForAll([x], z3.Implies(isanc(x, s), z3.And(z3.Not(hascfg(x)), z3.Not(legacy(x))))))
            elif isinstance(r, LDir):
                ex.oblige(self.oname("ensures:result_is_the_nearest_enclosing_directory_with_a_config"),
                          z3.And(isanc(r.e, s), hascfg(r.e), z3.ForAll([x], z3.Implies(z3.And(isanc(x, s), depth(x) > depth(r.e)), z3.Not(hascfg(x))))))
            else:
                ex.oblige(self.oname("ensures:result_is_a_directory_or_None"), False)
        else:
            exc = outcome[1]
            ex.oblige(self.oname("raises:IncompatibleSchemaVersion_only_if_no_current_config_encloses_and_a_legacy_one_does"),
                      z3.And(z3.BoolVal(isinstance(exc, IncompatibleSchemaVersion)),
                             z3.ForAll([x], z3.Implies(isanc(x, s), z3.Not(hascfg(x)))), z3.Exists([x], z3.And(isanc(x, s), legacy(x)))))


# ============================================================================= _raise_if_older_schema


class RaiseIfOlder(Contract):
    target = f"{CFG}._raise_if_older_schema"
    properties = ("C20", "C19")
    assumptions = ("_get_config_schema_version contract: returns the version declared by a loadable legacy/current config under root (0 if none declared), RuntimeError if no config loads",)

    def cases(self):
        return [{"found": True}, {"found": False}]

    def make_ctx(self, case):
        ctx = super().make_ctx(case)

        def get_ver(interp, b):
            if b["version_guess"] != 2:
                interp.ex.oblige(self.oname("call[_get_config_schema_version]:guess_is_the_supported_version"), False)
            if not case["found"]:
                raise RaiseSignal(RuntimeError("Unable to load config file."))
            return SInt(ctx.ghost["v"])
        ctx.callee_contracts["signac.migration._get_config_schema_version"] = get_ver
        return ctx

    def setup(self, interp, case):
        v = z3.Int("declared_version")
        interp.ctx.ghost["v"] = v
        # the normal loader failed for this directory, so a config that loads here is not one of the supported version in the v2 location;
        # what it declares can be any integer
        interp.ex.assume(v != 2)
        return ["ROOT"], {}, {"v": v}

    def post(self, interp, case, pre, outcome):
        from signac.errors import IncompatibleSchemaVersion
        ex = interp.ex
        if case["found"]:
            ex.oblige(self.oname("ensures:any_loadable_config_of_another_version_is_refused"),
                      z3.BoolVal(outcome[0] == "raise" and isinstance(outcome[1], IncompatibleSchemaVersion)))
        else:
            ex.oblige(self.oname("ensures:returns_None_when_no_config_loads"), z3.BoolVal(outcome[0] == "return" and outcome[1] is None))


# ============================================================================= Project._check_schema_compatibility


class SConfig(Sym):
    def __init__(self, v):
        self.v = v

    def sym_getitem(self, ex, k):
        if k == "schema_version":
            return SVer(self.v)
        raise Unsupported(f"config[{k!r}]")

    def sym_getattr(self, ex, name):
        if name == "get":
            def get(k, default=None):
                # the configuration may hold any key (a hand-edited or migrated file, ~/.signacrc): present -> some value of the file's
                if k != "schema_version" and ex.decide(None, f"pre:the configuration holds a value for {k!r}"):
                    return SCfgValue(k)
                return default
            return NativeStub(get, "config.get")
        raise Unsupported(f"config.{name}")


class SCfgValue(Sym):
    """a value read from the configuration under some key other than schema_version"""

    def __init__(self, key):
        self.key = key

    def __repr__(self):
        return f"<configured {self.key}>"


class SVer(Sym):
    def __init__(self, v):
        self.v = v


class GateCtx(Ctx):
    def builtin_hook(self, interp, f, args, kw):
        if f is int and len(args) == 1 and isinstance(args[0], SVer):
            return SInt(args[0].v)
        return super().builtin_hook(interp, f, args, kw)

    def dep_getattr(self, interp, o, name):
        raise Unsupported(f"attribute {name}")


class CheckSchemaCompat(Contract):
    target = f"{PRJ}.Project._check_schema_compatibility"
    properties = ("C20",)
    ctx_class = GateCtx
    inline = (f"{PRJ}.Project.config",)

    def setup(self, interp, case):
        rp = interp.repo
        rp.load(PRJ)
        o = Obj(rp.classes[f"{PRJ}.Project"])
        v = z3.Int("declared_version")
        o.fields["_config"] = SConfig(v)
        return [o], {}, {"v": v}

    def post(self, interp, case, pre, outcome):
        from signac.errors import IncompatibleSchemaVersion
        from signac.version import SCHEMA_VERSION
        ex, v = interp.ex, pre["v"]
        if outcome[0] == "return":
            ex.oblige(self.oname("ensures:passes_only_for_exactly_the_supported_version"), v == int(SCHEMA_VERSION))
            ex.oblige(self.oname("ensures:supported_version_is_2"), z3.BoolVal(int(SCHEMA_VERSION) == 2))
        else:
            ex.oblige(self.oname("raises:IncompatibleSchemaVersion_for_every_other_version"),
                      z3.And(z3.BoolVal(isinstance(outcome[1], IncompatibleSchemaVersion)), v != int(SCHEMA_VERSION)))


CONTRACTS = [LocateConfigDir(), RaiseIfOlder(), CheckSchemaCompat()]
