"""Sidecar contract for signac.linked_view._analyze_view (C17): what is obsolete, what is to be updated, what is new.

The tree helpers (_build_tree, _color_path, _find_dead_branches) are used through callee views: the tree is a token that remembers which
path set it was built from and which paths were coloured; the dead branches come back as an abstract sequence of branches, each with a
number of nodes BL(b) >= 0 and, when non-empty, the relative path BP(b) its node names spell (PLEN(BP(b)) == BL(b) path components).
Paths are abstract (sort VP); "." is the constant DOT."""
import os

import z3

from pyvc.core import CutSeq, NativeStub, SBool, SInt, Sym, Unsupported
from pyvc.interp import LoopSpec
from pyvc.theory_j import SymSet
from pyvc.verify import Contract, Ctx

from .linked_view import LV, VP

Br = z3.DeclareSort("Branch")
BL = z3.Function("BL", Br, z3.IntSort())
BP = z3.Function("BP", Br, VP)
PLEN = z3.Function("PLEN", VP, z3.IntSort())
DEAD = z3.Function("DEAD", z3.IntSort(), Br)            # the dead branches as returned by _find_dead_branches, i < N_DEAD
N_DEAD = z3.Int("n_dead")
EXISTING = z3.Function("EXISTING", VP, z3.BoolSort())   # <dir>/<leaf> for every directory _find_all_links reports
LINKS = z3.Function("LINKS", VP, z3.BoolSort())         # keys of the requested link map
TGT = z3.Function("TGT", VP, VP)                        # links[p]
REALP = z3.Function("REALP", VP, VP)                    # os.path.realpath(os.path.join(prefix, p))
DOT = z3.Const("DOT", VP)
LK = z3.Function("LK", z3.IntSort(), VP)                # iteration order of the link map
N_LK = z3.Int("n_links")


class SVPath(Sym):
    def __init__(self, e):
        self.e = e

    def sym_hashable(self):
        return True

    def sym_isinstance(self, ex, cls):
        return cls in (str, object)

    def sym_getattr(self, ex, name):
        if name == "split":
            return NativeStub(lambda sep: ("components-of", self.e) if sep == os.sep else (_ for _ in ()).throw(Unsupported("split separator")), "str.split")
        raise Unsupported(f"str.{name} on a view path")

    def sym_eq(self, ex, other):
        if isinstance(other, SVPath):
            return SBool(self.e == other.e)
        if other == ".":
            return SBool(self.e == DOT)
        raise Unsupported("path == this value")

    def sym_compare(self, ex, op, other, reflected=False):
        raise Unsupported("ordering of paths")


class SLinkMap(Sym):
    def sym_iter(self, ex):
        def at(interp, i):
            interp.ctx.ghost["colored_now"] = []
            return SVPath(LK(i))
        return CutSeq(N_LK, at, label="links")

    def sym_getattr(self, ex, name):
        if name == "keys":
            return NativeStub(lambda: SymSet(lambda x: LINKS(x), VP), "dict.keys")
        raise Unsupported(f"links.{name}")

    def sym_getitem(self, ex, k):
        if isinstance(k, SVPath):
            return SVPath(TGT(k.e))
        raise Unsupported("links[...] key")


class SBranch(Sym):
    def __init__(self, e):
        self.e = e

    def sym_truth(self, ex):
        return BL(self.e) > 0

    def sym_len(self, ex):
        return SInt(BL(self.e))

    def sym_iter(self, ex):
        raise Unsupported("iteration over the nodes of a branch outside os.path.join(*(n.name for n in branch))")


class SNamesOf(Sym):
    """(n.name for n in branch): stands for the whole sequence of node names; unpacked into os.path.join it spells BP(branch)"""

    def __init__(self, b):
        self.b = b

    def sym_iter(self, ex):
        return [self]


class SBranches(Sym):
    """order: 'given' (as returned), 'asc' (sorted by len), 'desc' (reversed(sorted by len))"""

    def __init__(self, order="given"):
        self.order = order

    def sym_iter(self, ex):
        order = self.order
        perm = z3.Function(ex.fresh_name("ORD"), z3.IntSort(), z3.IntSort())
        a, b = z3.Ints("oa ob")
        ex.assumptions_used.add("sorted(..., key=len) / reversed: a permutation of the branches in non-decreasing / non-increasing number of nodes")
        ex.assume(z3.ForAll([a], z3.Implies(z3.And(0 <= a, a < N_DEAD), z3.And(0 <= perm(a), perm(a) < N_DEAD))))
        ex.assume(z3.ForAll([a, b], z3.Implies(z3.And(0 <= a, a < b, b < N_DEAD), perm(a) != perm(b))))
        ex.assume(z3.ForAll([a], z3.Implies(z3.And(0 <= a, a < N_DEAD), z3.Exists([b], z3.And(0 <= b, b < N_DEAD, perm(b) == a)))))
        if order == "desc":
            ex.assume(z3.ForAll([a, b], z3.Implies(z3.And(0 <= a, a < b, b < N_DEAD), BL(DEAD(perm(a))) >= BL(DEAD(perm(b))))))
        elif order == "asc":
            ex.assume(z3.ForAll([a, b], z3.Implies(z3.And(0 <= a, a < b, b < N_DEAD), BL(DEAD(perm(a))) <= BL(DEAD(perm(b))))))
        cs = CutSeq(N_DEAD, lambda interp, i: SBranch(DEAD(perm(i))), label="branches")
        cs.perm = perm
        return cs


class SObsList(Sym):
    """the list `obsolete`: its members as a predicate; appends must come in non-increasing number of path components"""

    def __init__(self, mem):
        self.mem = mem
        self.order_ok = []

    def sym_contains(self, ex, x):
        if x == ".":
            return SBool(self.mem(DOT))
        raise Unsupported("membership test on the obsolete list")

    def sym_getattr(self, ex, name):
        if name == "append":
            def append(x):
                if not isinstance(x, SVPath):
                    raise Unsupported("obsolete.append of this value")
                cur = self.mem
                y = z3.Const("ay", VP)
                self.order_ok.append(z3.ForAll([y], z3.Implies(cur(y), PLEN(y) >= PLEN(x.e))))
                self.mem = lambda z, cur=cur, e=x.e: z3.Or(cur(z), z == e)
            return NativeStub(append, "list.append")
        if name == "remove":
            def remove(x):
                if x != ".":
                    raise Unsupported("obsolete.remove of this value")
                cur = self.mem
                self.mem = lambda z, cur=cur: z3.And(cur(z), z != DOT)
            return NativeStub(remove, "list.remove")
        raise Unsupported(f"list.{name}")


class AnalyzeCtx(Ctx):
    def __init__(self, contract, case):
        super().__init__(contract, case)
        self.externals[os.path.join] = self.x_join
        self.externals[os.path.realpath] = lambda interp, p: SVPath(REALP(p[1])) if isinstance(p, tuple) and p[0] == "under-prefix" else (_ for _ in ()).throw(Unsupported("realpath shape"))

    def x_join(self, interp, *a):
        if len(a) == 2 and a[0] == "PREFIX" and isinstance(a[1], SVPath):
            return ("under-prefix", a[1].e)
        if len(a) == 1 and isinstance(a[0], SNamesOf):
            return SVPath(BP(a[0].b))
        raise Unsupported("join shape")

    def kwargs_of(self, ex, d):
        raise Unsupported("**")

    def comprehension(self, interp, node, frame):
        import ast
        src = ast.unparse(node)
        if src == "{os.path.join(p, leaf) for p in _find_all_links(prefix, leaf)}":
            interp.ctx.ghost["find_all_links_args"] = (interp.lookup(frame, "prefix"), interp.lookup(frame, "leaf"))
            return SymSet(lambda x: EXISTING(x), VP)
        if src == "(n.name for n in branch)":
            b = interp.lookup(frame, "branch")
            if isinstance(b, SBranch):
                return SNamesOf(b.e)
        if isinstance(node, ast.ListComp) and len(node.generators) == 1 and isinstance(node.generators[0].iter, ast.Name) and len(node.generators[0].ifs) == 1 \
                and isinstance(node.elt, ast.Name) and isinstance(node.generators[0].target, ast.Name) and node.elt.id == node.generators[0].target.id:
            base = interp.lookup(frame, node.generators[0].iter.id)
            if isinstance(base, SymSet) and base.sort is VP:
                x0 = z3.Const(interp.ex.fresh_name("cp"), VP)
                f = interp._comp_frame(frame)
                interp.assign_target(node.generators[0].target, SVPath(x0), f)
                c = interp.ev(node.generators[0].ifs[0], f)
                ce = c.sym_truth(interp.ex) if isinstance(c, Sym) else z3.BoolVal(bool(c))
                return SymSet(lambda x: z3.And(base.member(x), z3.substitute(ce, (x0, x))), VP)
        return NotImplemented

    def starred(self, interp, v):
        return NotImplemented

    def setify(self, interp, v):
        if isinstance(v, SymSet):
            return v.copy()
        return super().setify(interp, v)

    def builtin_hook(self, interp, f, args, kw):
        if f is sorted and len(args) == 1 and isinstance(args[0], SBranches) and kw.get("key") is len and set(kw) <= {"key", "reverse"} and isinstance(kw.get("reverse", False), bool):
            return SBranches(("desc" if kw.get("reverse") else "asc") if args[0].order == "given" else "?")
        if f is reversed and len(args) == 1 and isinstance(args[0], SBranches):
            return SBranches({"asc": "desc", "desc": "asc"}.get(args[0].order, "?"))
        return super().builtin_hook(interp, f, args, kw)


class AnalyzeView(Contract):
    target = f"{LV}._analyze_view"
    properties = ("C17",)
    ctx_class = AnalyzeCtx

    def make_ctx(self, case):
        ctx = super().make_ctx(case)
        g = ctx.ghost
        g["colored"] = lambda x: z3.BoolVal(False)
        ctx.callee_contracts[f"{LV}._build_tree"] = lambda interp, b: ("tree-of", b["paths"])

        def color(interp, b):
            root, branch = b["root"], b["path"]
            if not (isinstance(root, tuple) and root[0] == "tree-of" and isinstance(branch, tuple) and branch[0] == "components-of"):
                raise Unsupported("_color_path arguments")
            g["colored_now"].append(branch[1])
        ctx.callee_contracts[f"{LV}._color_path"] = color

        def dead(interp, b):
            g["dead_of"] = (b["root"], g["colored"])
            return SBranches("given")
        ctx.callee_contracts[f"{LV}._find_dead_branches"] = dead
        return ctx

    def loops(self, case):
        x = z3.Const("lx", VP)
        j = z3.Int("lj")

        def inv_links(interp, fr, i, seq):
            c = interp.ctx.ghost["colored"]
            return z3.ForAll([x], c(x) == z3.Exists([j], z3.And(0 <= j, j < i, LK(j) == x)))

        def hv_col(interp, fr, tag):
            f = z3.Function(interp.ex.fresh_name("colored"), VP, z3.BoolSort())
            interp.ctx.ghost["colored"] = lambda y, f=f: f(y)

        def body_links(interp, fr, writes):
            g = interp.ctx.ghost
            now = g["colored_now"]
            interp.ex.oblige(self.oname("loop[links]:every_requested_link_path_is_coloured_in_the_tree_of_existing_paths"), z3.BoolVal(len(now) == 1))
            for e in now[:1]:
                cur = g["colored"]
                g["colored"] = lambda y, cur=cur, e=e: z3.Or(cur(y), y == e)

        def obs(interp, fr):
            v = interp.lookup(fr, "obsolete")
            if isinstance(v, list) and not v:
                return lambda y: z3.BoolVal(False)
            if isinstance(v, SObsList):
                return v.mem
            raise Unsupported("obsolete is not the list under construction")

        def inv_br(interp, fr, i, seq):
            m, perm = obs(interp, fr), seq.perm
            return z3.ForAll([x], m(x) == z3.Exists([j], z3.And(0 <= j, j < i, BL(DEAD(perm(j))) > 0, BP(DEAD(perm(j))) == x)))

        def hv_obs(interp, fr, tag):
            f = z3.Function(interp.ex.fresh_name("obs"), VP, z3.BoolSort())
            o = SObsList(lambda y, f=f: f(y))
            interp.ctx.ghost["obs_obj"] = o
            return o

        def body_br(interp, fr, writes):
            o = interp.ctx.ghost["obs_obj"]
            for c in o.order_ok:
                interp.ex.oblige(self.oname("loop[branches]:paths_are_listed_deepest_first_(a_directory_after_everything_below_it)"), c)
            o.order_ok.clear()
        return {"links": LoopSpec("links", inv_links, havoc={"$colored": hv_col}, scratch=("path",), heap_frame=body_links),
                "branches": LoopSpec("branches", inv_br, havoc={"obsolete": hv_obs}, scratch=("branch",), heap_frame=body_br)}

    def setup(self, interp, case):
        ex = interp.ex
        b = z3.Const("ab", Br)
        a, c = z3.Ints("sa sc")
        ex.assume(z3.And(N_DEAD >= 0, N_LK >= 0, z3.ForAll([b], z3.And(BL(b) >= 0, z3.Implies(BL(b) > 0, PLEN(BP(b)) == BL(b))))))
        p = z3.Const("ap", VP)
        ex.assume(z3.ForAll([p], LINKS(p) == z3.Exists([a], z3.And(0 <= a, a < N_LK, LK(a) == p))))
        return ["PREFIX", SLinkMap()], {}, {}

    def post(self, interp, case, pre, outcome):
        ex, g = interp.ex, interp.ctx.ghost
        if outcome[0] != "return":
            ex.oblige(self.oname("raises:nothing"), False, note=repr(outcome[1]))
            return
        r = outcome[1]
        ok = isinstance(r, tuple) and len(r) == 3 and isinstance(r[0], SObsList) and isinstance(r[1], SymSet) and isinstance(r[2], SymSet)
        ex.oblige(self.oname("ensures:returns_(obsolete,_to_update,_new)"), z3.BoolVal(ok), note=repr(r)[:200])
        if not ok:
            return
        x = z3.Const("px", VP)
        j = z3.Int("pj")
        fa = g.get("find_all_links_args")
        ex.oblige(self.oname("ensures:the_existing_view_is_read_from_the_prefix_with_the_leaf_name"), z3.BoolVal(fa is not None and fa[0] == "PREFIX" and fa[1] == "job"), note=repr(fa))
        d = g.get("dead_of")
        tree_ok = d is not None and isinstance(d[0], tuple) and d[0][0] == "tree-of" and isinstance(d[0][1], SymSet)
        ex.oblige(self.oname("ensures:dead_branches_are_taken_from_the_tree_of_the_existing_paths_after_colouring_exactly_the_requested_paths"),
                  z3.And(z3.BoolVal(tree_ok), z3.ForAll([x], d[0][1].member(x) == EXISTING(x)), z3.ForAll([x], d[1](x) == LINKS(x))) if tree_ok else z3.BoolVal(False))
        ex.oblige(self.oname("ensures:obsolete_is_every_non-empty_dead_branch_except_the_view_root_'.'"),
                  z3.ForAll([x], r[0].mem(x) == z3.And(x != DOT, z3.Exists([j], z3.And(0 <= j, j < N_DEAD, BL(DEAD(j)) > 0, BP(DEAD(j)) == x)))))
        ex.oblige(self.oname("ensures:new_is_every_requested_path_that_does_not_exist_yet"), z3.ForAll([x], r[2].member(x) == z3.And(LINKS(x), z3.Not(EXISTING(x)))))
        ex.oblige(self.oname("ensures:to_update_is_every_existing_requested_path_whose_link_leads_elsewhere"),
                  z3.ForAll([x], r[1].member(x) == z3.And(LINKS(x), EXISTING(x), REALP(x) != TGT(x))))


CONTRACTS = [AnalyzeView()]
