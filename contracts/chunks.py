"""Sidecar contract for signac.project._split_and_print_progress (C08: every id to be added to the cache is in exactly one chunk).

Pure integer reasoning: the list is abstract (length N >= 0), a slice iterable[a:b] is the index interval it denotes under Python's
clamping; the chunks yielded must tile [0, N) in order, without gap or overlap, for every number of chunks.  The progress messages
(timing estimates) are opaque values."""
import time
from datetime import timedelta

import z3

from pyvc.core import CutSeq, NativeStub, SBool, SInt, SQuot, Sym, Unsupported
from pyvc.interp import LoopSpec
from pyvc.verify import Contract, Ctx

PRJ = "signac.project"

N = z3.Int("list_len")
C = z3.Int("num_chunks")


class SOpq(Sym):
    """a number / duration the contract does not look at (timing estimates for the progress message)"""

    def sym_binop(self, ex, op, other, reflected=False):
        return SOpq()

    def sym_compare(self, ex, op, other, reflected=False):
        return SBool(z3.Bool(ex.fresh_name("opq_cmp")))

    def sym_truth(self, ex):
        return z3.Bool(ex.fresh_name("opq_truth"))

    def sym_eq(self, ex, other):
        return SBool(z3.Bool(ex.fresh_name("opq_eq")))


class SOpqList(SOpq):
    def sym_len(self, ex):
        return SOpq()

    def sym_getattr(self, ex, name):
        if name == "append":
            return NativeStub(lambda x: None, "list.append")
        raise Unsupported(f"list.{name}")


class SListN(Sym):
    def sym_len(self, ex):
        return SInt(N)

    def sym_getitem(self, ex, k):
        if isinstance(k, slice) and k.step is None:
            lo = z3.IntVal(0) if k.start is None else (k.start.e if isinstance(k.start, SInt) else z3.IntVal(k.start))
            hi = N if k.stop is None else (k.stop.e if isinstance(k.stop, SInt) else z3.IntVal(k.stop))
            clamp = lambda v: z3.If(v < 0, z3.If(v + N < 0, 0, v + N), z3.If(v > N, N, v))
            lo, hi = clamp(lo), clamp(hi)
            return SSliceOf(lo, z3.If(hi < lo, lo, hi))
        raise Unsupported("list subscript shape")


class SSliceOf(Sym):
    def __init__(self, lo, hi):
        self.lo, self.hi = lo, hi


class SRangeC(Sym):
    def __init__(self, hi):
        self.hi = hi

    def sym_iter(self, ex):
        n = z3.If(self.hi > 0, self.hi, 0)

        def at(interp, i):
            interp.ctx.ghost["cur_i"] = i
            interp.ctx.ghost["yielded_now"] = []
            return SInt(i)
        return CutSeq(n, at, label="range")


class ChunkCtx(Ctx):
    def __init__(self, contract, case):
        super().__init__(contract, case)
        self.externals[time.time] = lambda interp: SOpq()
        self.externals[range] = lambda interp, a: SRangeC(a.e if isinstance(a, SInt) else z3.IntVal(a))
        self.externals[timedelta] = lambda interp, **k: SOpq()

    def builtin_hook(self, interp, f, args, kw):
        ex = interp.ex
        if f is int and len(args) == 1 and isinstance(args[0], SQuot):
            q = z3.Int(ex.fresh_name("quot"))
            a, b = args[0].a, args[0].b
            ex.assumptions_used.add("int(a / b) for 0 <= a, 0 < b is the floor quotient (float rounding of the true division ignored: machine arithmetic treated as mathematical)")
            ex.assume(z3.Implies(z3.And(a >= 0, b > 0), z3.And(q * b <= a, a < (q + 1) * b, q >= 0)))
            return SInt(q)
        if f is int and len(args) == 1 and isinstance(args[0], SOpq):
            return SOpq()
        if f is sum and args and isinstance(args[0], SOpq):
            return SOpq()
        return super().builtin_hook(interp, f, args, kw)


class SplitProgress(Contract):
    target = f"{PRJ}._split_and_print_progress"
    properties = ("C08",)
    ctx_class = ChunkCtx
    solver_timeout_ms = 15000

    def loops(self, case):
        def inv(interp, fr, i, seq):
            g = interp.ctx.ghost
            L = interp.lookup(fr, "len_chunk")
            L = L.e if isinstance(L, SInt) else z3.IntVal(L)
            # everything yielded so far tiles [0, i * len_chunk): recorded as the running end of the covered prefix
            return g["covered"] == i * L

        def hv_cov(interp, fr, tag):
            interp.ctx.ghost["covered"] = z3.Int(interp.ex.fresh_name("covered"))

        def body(interp, fr, writes):
            ex, g = interp.ex, interp.ctx.ghost
            ys = g["yielded_now"]
            ex.oblige(self.oname("loop[chunks]:one_chunk_per_iteration"), z3.BoolVal(len(ys) == 1 and isinstance(ys[0], SSliceOf)), note=repr(ys))
            for y in ys[:1]:
                if isinstance(y, SSliceOf):
                    ex.oblige(self.oname("loop[chunks]:the_chunk_starts_where_the_previous_one_ended"), y.lo == g["covered"])
                    g["covered"] = y.hi
        def after(interp, fr, seq):
            # Python leaves the loop variable at the last element of a non-empty range(n): n - 1; after an empty range it is unbound
            if not interp.ex.decide(seq.n >= 1, "range:non-empty"):
                from pyvc.core import RaiseSignal
                raise RaiseSignal(UnboundLocalError("loop variable is unbound after an empty range"))
            interp.assign_name(fr, "i", SInt(seq.n - 1))
        return {"range": LoopSpec("chunks", inv, havoc={"$covered": hv_cov, "intervals": lambda interp, fr, tag: SOpqList(), "show_est": lambda interp, fr, tag: SOpq()},
                                  scratch=("i", "msg", "mean_interval", "est_remaining", "start"), heap_frame=body, after=after)}

    def setup(self, interp, case):
        ex, g = interp.ex, interp.ctx.ghost
        ex.assume(N >= 0)
        g["covered"] = z3.IntVal(0)
        g["yielded_now"] = []
        g["tail"] = []
        g["written"] = []
        w = NativeStub(lambda msg: g["written"].append(msg), "write")
        return [SListN()], {"num_chunks": SInt(C), "write": w, "desc": "Read: "}, {}

    def yield_hook(self, interp, case, pre):
        def hook(v):
            g = interp.ctx.ghost
            g["yielded_now"].append(v)
            g["tail"].append(v)
        return hook

    def post(self, interp, case, pre, outcome):
        ex, g = interp.ex, interp.ctx.ghost
        if outcome[0] == "raise":
            ex.oblige(self.oname("raises:ValueError_iff_the_number_of_chunks_is_not_positive"), z3.And(z3.BoolVal(isinstance(outcome[1], ValueError) and not g["tail"]), C <= 0), note=repr(outcome[1]))
            return
        last = g["tail"][-1] if g["tail"] else None
        if not isinstance(last, (SSliceOf, SListN)):
            ex.oblige(self.oname("ensures:ends_with_a_chunk"), False, note=repr(last))
            return
        if isinstance(last, SListN):
            ex.oblige(self.oname("ensures:a_single_chunk_is_the_whole_list"), z3.And(C == 1, z3.BoolVal(len(g["tail"]) == 1)))
            return
        # the final chunk starts where the tiled prefix ends and reaches the end of the list: together the chunks tile [0, N)
        ex.oblige(self.oname("ensures:the_last_chunk_starts_where_the_previous_ones_ended"), last.lo == g["covered_before_last"] if "covered_before_last" in g else last.lo == g["covered"])
        ex.oblige(self.oname("ensures:the_last_chunk_reaches_the_end_of_the_list_(the_chunks_tile_the_whole_list,_each_element_once)"), z3.And(last.hi == N, C > 1))


CONTRACTS = [SplitProgress()]
