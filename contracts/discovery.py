"""Sidecar contracts for project / job discovery from a path (C19): Project.get_project, Project.get_job, Project.init_project.

Paths are abstract directory terms of the chain theory of contracts/config.py (parent / depth / isanc; hascfg(d): <d>/.signac/config is a
file).  `_locate_config_dir` is used through its contract (LocateConfigDir, proved in contracts/config.py).  For get_job a path is seen
through the job-id pattern only: m >= 0 non-overlapping matches of JOB_ID_REGEX, ordered left to right; match k has text MID(k) and ends
at END(k); which of them the code takes is what the contract pins down."""
import os
import re

import z3

from pyvc.core import NativeStub, RaiseSignal, SBool, SInt, Sym, Unsupported
from pyvc.verify import Contract
from contracts.config import Dir, DirCtx, LCfgFile, LDir, depth, dir_axioms, hascfg, isanc, legacy, parent

PRJ = "signac.project"
CFG = "signac._config"

exists_d = z3.Function("exists_d", Dir, z3.BoolSort())


def stub_locate(interp, b):
    """callee view of _locate_config_dir (clauses of LocateConfigDir.post)"""
    from signac.errors import IncompatibleSchemaVersion
    ex = interp.ex
    s = b["search_path"]
    if not isinstance(s, LDir):
        raise Unsupported("_locate_config_dir argument")
    s = s.e
    x = z3.Const("lx", Dir)
    interp.ctx.ghost.setdefault("located_from", []).append(s)
    if ex.decide(None, "locate:found"):
        r = z3.Const(ex.fresh_name("found"), Dir)
        ex.assume(z3.And(isanc(r, s), hascfg(r), z3.ForAll([x], z3.Implies(z3.And(isanc(x, s), depth(x) > depth(r)), z3.Not(hascfg(x))))))
        # instances of the quantified clause / chain axioms at the terms the caller can mention (keeps refutations quantifier-light)
        ex.assume(z3.Implies(depth(s) > depth(r), z3.Not(hascfg(s))))
        return LDir(r)
    if ex.decide(None, "locate:legacy"):
        ex.assume(z3.And(z3.ForAll([x], z3.Implies(isanc(x, s), z3.Not(hascfg(x)))), z3.Exists([x], z3.And(isanc(x, s), legacy(x))), z3.Not(hascfg(s))))
        raise RaiseSignal(IncompatibleSchemaVersion("legacy"))
    ex.assume(z3.And(z3.ForAll([x], z3.Implies(isanc(x, s), z3.And(z3.Not(hascfg(x)), z3.Not(legacy(x))))), z3.Not(hascfg(s))))
    return None


class SProj(Sym):
    def __init__(self, d, kwargs):
        self.d, self.kwargs = d, kwargs

    def sym_truth(self, ex):
        return True


class DiscCtx(DirCtx):
    def __init__(self, contract, case):
        super().__init__(contract, case)
        self.externals[os.getcwd] = lambda interp: LDir(z3.Const("cwd", Dir))
        self.externals[os.path.exists] = lambda interp, p: SBool(exists_d(p.e)) if isinstance(p, LDir) else (_ for _ in ()).throw(Unsupported("exists shape"))

    def instantiate(self, interp, rc, args, kw):
        if rc.name == "Project":
            if args or "path" not in kw:
                raise Unsupported("Project(...) call shape")
            self.ghost.setdefault("made", []).append(kw)
            p = kw["path"]
            if not isinstance(p, LDir):
                raise Unsupported("Project(path=...) with a non-directory value")
            return SProj(p.e, {k: v for k, v in kw.items() if k != "path"})
        return NotImplemented


class GetProject(Contract):
    target = f"{PRJ}.Project.get_project"
    properties = ("C19",)
    ctx_class = DiscCtx
    inline = (f"{CFG}._get_project_config_fn",)
    callees = {f"{CFG}._locate_config_dir": stub_locate}

    def cases(self):
        return [{"path": p, "search": s} for p in ("given", None) for s in (True, False)]

    def setup(self, interp, case):
        ex = interp.ex
        for a in dir_axioms():
            ex.assume(a)
        s = z3.Const("start", Dir) if case["path"] else z3.Const("cwd", Dir)
        cls = interp.repo.classes[f"{PRJ}.Project"]
        return [cls], {"path": LDir(s) if case["path"] else None, "search": case["search"]}, {"s": s}

    def post(self, interp, case, pre, outcome):
        from signac.errors import IncompatibleSchemaVersion
        ex, s = interp.ex, pre["s"]
        x = z3.Const("px", Dir)
        nearest = lambda r: z3.And(isanc(r, s), hascfg(r), z3.ForAll([x], z3.Implies(z3.And(isanc(x, s), depth(x) > depth(r)), z3.Not(hascfg(x)))))
        none = z3.ForAll([x], z3.Implies(isanc(x, s), z3.Not(hascfg(x))))
        if outcome[0] == "return":
            r = outcome[1]
            if not isinstance(r, SProj):
                ex.oblige(self.oname("ensures:returns_a_project"), False, note=repr(r))
                return
            if case["search"]:
                ex.oblige(self.oname("ensures:search_returns_the_project_of_the_nearest_enclosing_directory_with_a_config"), z3.And(exists_d(s), nearest(r.d)))
            else:
                ex.oblige(self.oname("ensures:without_search_only_a_project_rooted_at_the_path_itself_is_returned"), z3.And(exists_d(s), hascfg(s), r.d == s))
            ex.oblige(self.oname("ensures:no_extra_constructor_arguments"), z3.BoolVal(r.kwargs == {}))
        else:
            e = outcome[1]
            if isinstance(e, IncompatibleSchemaVersion):
                ex.oblige(self.oname("raises:IncompatibleSchemaVersion_only_for_a_legacy_project_and_no_current_one"), z3.And(exists_d(s), none))
            elif isinstance(e, LookupError):
                ex.oblige(self.oname("raises:LookupError_iff_the_path_does_not_exist_or_no_project_is_found"),
                          z3.Or(z3.Not(exists_d(s)), none if case["search"] else z3.Not(hascfg(s))))
            else:
                ex.oblige(self.oname("raises:only_LookupError_or_IncompatibleSchemaVersion"), False, note=repr(e))


# ============================================================================= Project.get_job

Mid = z3.DeclareSort("MatchText")
MID = z3.Function("MID", z3.IntSort(), Mid)        # text of the k-th match of JOB_ID_REGEX in the path
END = z3.Function("END", z3.IntSort(), z3.IntSort())
NM = z3.Int("n_matches")
PFX = z3.Function("PFX", z3.IntSort(), Dir)        # directory named by path[:e]


class SPathStr(Sym):
    """the absolute path as a string, seen through the job-id pattern"""

    def sym_getitem(self, ex, k):
        import ast
        if isinstance(k, slice) and k.start is None and k.step is None and isinstance(k.stop, SInt):
            return LDir(PFX(k.stop.e))
        raise Unsupported("path subscript shape")

    def sym_isinstance(self, ex, cls):
        return cls in (str, object)


class SMatch(Sym):
    def __init__(self, k):
        self.k = k

    def sym_is(self, ex, other):
        if other is None:
            return False
        raise Unsupported("is")

    def sym_truth(self, ex):
        return True

    def sym_getattr(self, ex, name):
        if name == "group":
            def group(i=0):
                if i != 0:
                    raise Unsupported("match.group(i != 0)")
                return SMatchText(MID(self.k))
            return NativeStub(group, "match.group")
        if name == "end":
            return NativeStub(lambda: SInt(END(self.k)), "match.end")
        raise Unsupported(f"match.{name}")


class SMatchText(Sym):
    def __init__(self, e):
        self.e = e

    def sym_isinstance(self, ex, cls):
        return cls in (str, object)


class SMatches(Sym):
    """list(re.finditer(...)): all matches, left to right"""

    def sym_len(self, ex):
        return SInt(NM)

    def sym_iter(self, ex):
        from pyvc.core import CutSeq
        return CutSeq(NM, lambda interp, i: SMatch(i), label="matches")

    def sym_truth(self, ex):
        return NM > 0

    def sym_getitem(self, ex, k):
        if isinstance(k, int):
            if k < 0:
                if not ex.decide(NM >= -k, f"matches:len>={-k}"):
                    raise RaiseSignal(IndexError("list index out of range"))
                return SMatch(NM + k)
            if not ex.decide(NM > k, f"matches:len>{k}"):
                raise RaiseSignal(IndexError("list index out of range"))
            return SMatch(z3.IntVal(k))
        raise Unsupported("symbolic index into the match list")


class JobCtxD(DiscCtx):
    def __init__(self, contract, case):
        super().__init__(contract, case)
        self.externals[os.getcwd] = lambda interp: SPathStr()
        self.externals[os.path.abspath] = lambda interp, p: p if isinstance(p, (SPathStr, LDir)) else (_ for _ in ()).throw(Unsupported("abspath"))
        self.externals[os.path.exists] = lambda interp, p: SBool(z3.Bool("path_exists")) if isinstance(p, SPathStr) else (_ for _ in ()).throw(Unsupported("exists shape"))
        self.externals[re.finditer] = self.x_finditer
        self.externals[os.path.join] = self.x_join2

    def x_finditer(self, interp, pat, s, *a):
        self.check_pat(pat)
        if not isinstance(s, SPathStr):
            raise Unsupported("finditer subject")
        return SMatches()

    @staticmethod
    def check_pat(pat):
        if getattr(pat, "pattern", pat) != "[a-f0-9]{32}":
            raise Unsupported(f"job id pattern is {getattr(pat, 'pattern', pat)!r}")

    def x_join2(self, interp, a, b):
        if isinstance(a, LDir) and b == os.pardir:
            return LDir(parent(a.e))
        return self.x_join(interp, a, b)

    def builtin_hook(self, interp, f, args, kw):
        slf = getattr(f, "__self__", None)
        if type(slf).__name__ == "Pattern" and args and isinstance(args[0], SPathStr):
            self.check_pat(slf)
            nm = f.__name__
            if nm == "finditer":
                return SMatches()
            if nm == "search":
                return SMatch(z3.IntVal(0)) if interp.ex.decide(NM > 0, "search:found") else None
            raise Unsupported(f"Pattern.{nm} on the path")
        if f is list and len(args) == 1 and isinstance(args[0], SMatches):
            return args[0]
        return super().builtin_hook(interp, f, args, kw)

    def listify(self, ex, v, f):
        if isinstance(v, SMatches) and f is list:
            return v
        raise Unsupported("list() of this sequence")

    def instantiate(self, interp, rc, args, kw):
        if rc.name == "Job":
            self.ghost.setdefault("jobs", []).append((args, kw))
            return ("job", args, kw)
        return super().instantiate(interp, rc, args, kw)


def stub_get_project(interp, b):
    p = b["path"]
    if not isinstance(p, LDir) or b.get("search", True) is not True or b.get("kwargs"):
        raise Unsupported("get_project call shape")
    interp.ctx.ghost.setdefault("project_from", []).append(p.e)
    if interp.ex.decide(None, "get_project:found"):
        return SProj(z3.Const(interp.ex.fresh_name("projdir"), Dir), {})
    raise RaiseSignal(LookupError("no project"))


class GetJob(Contract):
    target = f"{PRJ}.Project.get_job"
    properties = ("C19",)
    ctx_class = JobCtxD
    callees = {f"{PRJ}.Project.get_project": stub_get_project}

    def cases(self):
        return [{"path": "given"}, {"path": None}]

    def setup(self, interp, case):
        ex = interp.ex
        ex.assume(NM >= 0)
        cls = interp.repo.classes[f"{PRJ}.Project"]
        return [cls], {"path": SPathStr() if case["path"] else None}, {}

    def post(self, interp, case, pre, outcome):
        ex, g = interp.ex, interp.ctx.ghost
        last = NM - 1
        if outcome[0] == "return":
            r = outcome[1]
            ok = isinstance(r, tuple) and r and r[0] == "job" and not r[1] and set(r[2]) == {"project", "id_", "directory_known"}
            if not ok:
                ex.oblige(self.oname("ensures:returns_a_job_handle_built_from_project_id_and_known_directory"), False, note=repr(r)[:200])
                return
            kw = r[2]
            idv, proj = kw["id_"], kw["project"]
            ex.oblige(self.oname("ensures:the_job_is_the_innermost_(last)_job_id_component_of_the_path"),
                      z3.And(NM > 0, idv.e == MID(last)) if isinstance(idv, SMatchText) else z3.BoolVal(False))
            pf = g.get("project_from", [])
            ex.oblige(self.oname("ensures:its_project_is_searched_from_the_directory_holding_that_job_directory"),
                      z3.And(z3.BoolVal(len(pf) == 1 and isinstance(proj, SProj)), pf[0] == parent(PFX(END(last)))) if pf else z3.BoolVal(False))
            ex.oblige(self.oname("ensures:directory_known_and_path_exists"), z3.And(z3.BoolVal(kw["directory_known"] is True), z3.Bool("path_exists")))
        else:
            e = outcome[1]
            ex.oblige(self.oname("raises:only_LookupError"), z3.BoolVal(isinstance(e, LookupError)), note=repr(e))
            if not g.get("project_from"):
                ex.oblige(self.oname("raises:LookupError_before_the_project_search_iff_the_path_is_missing_or_has_no_job_id_component"),
                          z3.Or(z3.Not(z3.Bool("path_exists")), NM == 0))

    def witness(self, case, model, ob):
        if "innermost" not in ob.name:
            return None
        return {"script": WITNESS_GET_JOB, "input": "a job directory holding a nested project with its own job; get_job(inner job directory)"}


WITNESS_GET_JOB = r'''
import os, sys, tempfile
sys.path.insert(0, os.environ.get("PYVC_REPO", "/repo"))
import signac
with tempfile.TemporaryDirectory() as d:
    outer = signac.init_project(os.path.join(d, "outer"))
    oj = outer.open_job({"a": 1}).init()
    inner = signac.init_project(os.path.join(oj.path, "nested"))
    ij = inner.open_job({"b": 2}).init()
    got = signac.get_job(ij.path)
    assert got.id == ij.id and os.path.realpath(got.project.path) == os.path.realpath(inner.path), (got.id, ij.id, got.project.path)
print("ok")
'''


# ============================================================================= Project.init_project


class SCfgObj(Sym):
    def __init__(self, ctx, d):
        self.ctx, self.d = ctx, d

    def sym_setitem(self, ex, k, v):
        self.ctx.ghost["effects"].append(("config-set", k, v))

    def sym_getattr(self, ex, name):
        if name == "write":
            def write():
                self.ctx.ghost["effects"].append(("config-write", self.d))
                self.ctx.ghost["written"] = True
            return NativeStub(write, "config.write")
        raise Unsupported(f"config.{name}")


class InitCtx(DiscCtx):
    def __init__(self, contract, case):
        super().__init__(contract, case)
        self.ghost["effects"] = []
        self.externals[os.path.dirname] = self.x_dirname2

    def x_dirname2(self, interp, p):
        if isinstance(p, LCfgFile):
            return ("cfgdir", p.d)
        if isinstance(p, LDir):
            return LDir(parent(p.e))
        raise Unsupported("dirname shape")


def stub_get_project_init(interp, b):
    """callee view of Project.get_project (clauses of GetProject.post) on the directory being initialised"""
    ex, g = interp.ex, interp.ctx.ghost
    p, search = b["path"], b.get("search", True)
    if not isinstance(p, LDir) or b.get("kwargs"):
        raise Unsupported("get_project call shape")
    g.setdefault("gp_calls", []).append((p.e, search, len(g["effects"])))
    has = z3.BoolVal(True) if g.get("written") else z3.And(exists_d(p.e), hascfg(p.e))
    if search is False:
        if ex.decide(has, "get_project(search=False):project-here"):
            return SProj(p.e, {})
        raise RaiseSignal(LookupError("no project here"))
    if search is True:
        if ex.decide(has, "get_project:project-here"):
            return SProj(p.e, {})
        if ex.decide(None, "get_project:enclosing-project"):
            r = z3.Const(ex.fresh_name("enclosing"), Dir)
            ex.assume(z3.And(isanc(r, p.e), hascfg(r), r != p.e))
            return SProj(r, {})
        raise RaiseSignal(LookupError("no project"))
    raise Unsupported("symbolic search flag")


def stub_raise_if_older_d(interp, b):
    from signac.errors import IncompatibleSchemaVersion
    root = b["root"]
    interp.ctx.ghost["effects"].append(("legacy-gate", root.e))
    if interp.ex.decide(legacy(root.e), "legacy-config-here"):
        raise RaiseSignal(IncompatibleSchemaVersion("legacy"))
    return None


def stub_mkdir_p_cfg(interp, b):
    interp.ctx.ghost["effects"].append(("mkdir_p", b["path"]))
    return None


def stub_read_config(interp, b):
    f = b["filename"]
    if not isinstance(f, LCfgFile):
        raise Unsupported("_read_config_file argument")
    return SCfgObj(interp.ctx, f.d)


class InitProject(Contract):
    target = f"{PRJ}.Project.init_project"
    properties = ("C19", "C20")
    ctx_class = InitCtx
    inline = (f"{CFG}._get_project_config_fn",)
    callees = {f"{PRJ}.Project.get_project": stub_get_project_init, f"{CFG}._raise_if_older_schema": stub_raise_if_older_d,
               "signac._utility._mkdir_p": stub_mkdir_p_cfg, f"{CFG}._read_config_file": stub_read_config}

    def cases(self):
        return [{"path": "given"}, {"path": None}]

    def setup(self, interp, case):
        s = z3.Const("start", Dir) if case["path"] else z3.Const("cwd", Dir)
        cls = interp.repo.classes[f"{PRJ}.Project"]
        return [cls], {"path": LDir(s) if case["path"] else None}, {"s": s}

    def post(self, interp, case, pre, outcome):
        from signac.errors import IncompatibleSchemaVersion
        from signac.project import SCHEMA_VERSION
        ex, g, s = interp.ex, interp.ctx.ghost, pre["s"]
        eff = g["effects"]
        existing = z3.And(exists_d(s), hascfg(s))
        writes = [e for e in eff if e[0] != "legacy-gate"]
        if outcome[0] == "return":
            r = outcome[1]
            ex.oblige(self.oname("ensures:returns_the_project_rooted_at_the_given_directory"), z3.BoolVal(isinstance(r, SProj)) if not isinstance(r, SProj) else r.d == s)
            ex.oblige(self.oname("ensures:an_existing_project_is_returned_without_any_write"), z3.Implies(existing, z3.BoolVal(writes == [])))
            if writes:
                shape = (len(writes) == 3 and writes[0] == ("mkdir_p", ("cfgdir", s)) and writes[1][0] == "config-set" and writes[1][1] == "schema_version"
                         and writes[1][2] == SCHEMA_VERSION and writes[2] == ("config-write", s))
                ex.oblige(self.oname("ensures:a_new_project_gets_exactly_the_config_directory_and_a_config_with_the_current_schema_version"), z3.BoolVal(bool(shape)), note=repr(writes)[:300])
                ex.oblige(self.oname("ensures:nothing_is_written_before_the_legacy_gate_passed"),
                          z3.And(z3.BoolVal(bool(eff) and eff[0] == ("legacy-gate", s)), z3.Not(legacy(s))))
        else:
            e = outcome[1]
            ex.oblige(self.oname("raises:only_IncompatibleSchemaVersion_for_a_legacy_project_and_before_any_write"),
                      z3.And(z3.BoolVal(isinstance(e, IncompatibleSchemaVersion) and writes == []), legacy(s), z3.Not(existing)), note=repr(e))


# ============================================================================= module-level front ends: pure forwarding


class Tok(Sym):
    def __init__(self, name):
        self.name = name

    def __repr__(self):
        return f"<{self.name}>"


class Forward(Contract):
    """signac.get_project / get_job / init_project hand their arguments to the Project classmethod unchanged and return its result"""
    properties = ("C19",)

    def __init__(self, fn, params, with_kwargs=False):
        self.target = f"{PRJ}.{fn}"
        self.fn, self.params, self.with_kwargs = fn, params, with_kwargs
        super().__init__()

    def make_ctx(self, case):
        ctx = super().make_ctx(case)

        def stub(interp, b):
            ctx.ghost["got"] = dict(b)
            return ctx.ghost["result"]
        ctx.callee_contracts[f"{PRJ}.Project.{self.fn}"] = stub
        ctx.ghost["result"] = Tok("result")
        # whatever a wrapper asks the file system about its argument: some answer; whatever it derives from it: another value
        for f in (os.path.isdir, os.path.isfile, os.path.exists, os.path.islink, os.path.isabs):
            ctx.externals[f] = lambda interp, p_, f=f: SBool(z3.Bool(interp.ex.fresh_name(f.__name__)))
        for f in (os.path.dirname, os.path.abspath, os.path.realpath, os.path.normpath, os.path.expanduser, os.path.basename):
            ctx.externals[f] = lambda interp, p_, f=f: Tok(f.__name__ + "-of-argument")
        return ctx

    def setup(self, interp, case):
        kw = {p: Tok(p) for p in self.params}
        if self.with_kwargs:
            kw["extra_option"] = Tok("extra_option")
        return [], kw, {"kw": kw}

    def post(self, interp, case, pre, outcome):
        ex, g = interp.ex, interp.ctx.ghost
        got = g.get("got")
        ok = outcome[0] == "return" and outcome[1] is g["result"] and got is not None
        if ok:
            flat = {k: v for k, v in got.items() if k not in ("cls", "kwargs")}
            flat.update(got.get("kwargs") or {})
            ok = set(flat) == set(pre["kw"]) and all(flat[k] is v for k, v in pre["kw"].items())
        ex.oblige(self.oname("ensures:arguments_are_forwarded_unchanged_and_the_result_is_returned"), z3.BoolVal(bool(ok)), note=repr(got)[:200])


CONTRACTS = [GetProject(), GetJob(), InitProject(), Forward("get_project", ("path", "search"), True), Forward("get_job", ("path",)), Forward("init_project", ("path",))]
