"""Sidecar contracts for signac/import_export.py (C16): the leaf/node validity check of an export and the export driver.

Export paths are abstract (sort Path); what the check can observe of a path is its token sequence: NT(p) >= 1 tokens and, for
1 <= i <= NT(p), the path PRE(p, i) made of its first i tokens (contracts of str.split / str.join on os.sep, trusted).
"p is a node under which q lies" is then: p == PRE(q, i) for some 1 <= i < NT(q)."""
import os

import z3

from pyvc.core import CutSeq, NativeStub, RaiseSignal, SBool, SInt, Sym, Unsupported
from pyvc.interp import LoopSpec
from pyvc.theory_j import SymSet
from pyvc.verify import Contract, Ctx

IE = "signac.import_export"

Path = z3.DeclareSort("Path")
NT = z3.Function("NT", Path, z3.IntSort())
PRE = z3.Function("PRE", Path, z3.IntSort(), Path)


class SPath(Sym):
    def __init__(self, e):
        self.e = e

    def sym_hashable(self):
        return True

    def sym_isinstance(self, ex, cls):
        return cls in (str, object)

    def sym_getattr(self, ex, name):
        if name == "split":
            def split(sep):
                if sep != os.path.sep:
                    raise Unsupported("split on another separator")
                return STokens(self.e)
            return NativeStub(split, "str.split")
        raise Unsupported(f"str.{name} on an export path")

    def sym_eq(self, ex, other):
        if isinstance(other, SPath):
            return SBool(self.e == other.e)
        raise Unsupported("path == non-path")


class STokens(Sym):
    def __init__(self, p, upto=None):
        self.p, self.upto = p, upto

    def sym_len(self, ex):
        return SInt(NT(self.p) if self.upto is None else self.upto)

    def sym_getitem(self, ex, k):
        if self.upto is None and isinstance(k, slice) and k.start is None and k.step is None and isinstance(k.stop, SInt):
            return STokens(self.p, k.stop.e)
        raise Unsupported("token subscript shape")


class SPathSeq(Sym):
    def __init__(self, ex, tag="paths"):
        self.n = z3.Int(ex.fresh_name("n_" + tag))
        self.f = z3.Function(ex.fresh_name(tag), z3.IntSort(), Path)
        ex.assume(self.n >= 0)

    def sym_iter(self, ex):
        def at(interp, i):
            interp.ctx.ghost["outer_i"] = i
            return SPath(self.f(i))
        return CutSeq(self.n, at, label="paths")


class SRange(Sym):
    def __init__(self, lo, hi):
        self.lo, self.hi = lo, hi

    def sym_iter(self, ex):
        n = z3.If(self.hi > self.lo, self.hi - self.lo, 0)
        return CutSeq(n, lambda interp, i: SInt(self.lo + i), label="range")


def _z(v):
    return v.e if isinstance(v, SInt) else z3.IntVal(v)


class PathCtx(Ctx):
    def __init__(self, contract, case):
        super().__init__(contract, case)
        self.externals[set] = lambda interp, *a: SymSet.empty(Path) if not a else (_ for _ in ()).throw(Unsupported("set(x)"))
        self.externals[list] = lambda interp, a: a if isinstance(a, SPathSeq) else (_ for _ in ()).throw(Unsupported("list(x)"))
        self.externals[range] = self.x_range

    def x_range(self, interp, *a):
        if len(a) == 1:
            return SRange(z3.IntVal(0), _z(a[0]))
        if len(a) == 2:
            return SRange(_z(a[0]), _z(a[1]))
        raise Unsupported("range with a step")

    def str_join(self, interp, sep, parts):
        if sep == os.path.sep and isinstance(parts, STokens) and parts.upto is not None:
            interp.ex.assumptions_used.add("str.split / str.join on os.sep: PRE(p, i) is the path of the first i tokens of p, PRE(p, NT(p)) == p (trusted)")
            return SPath(PRE(parts.p, parts.upto))
        raise Unsupported("join shape")


def _contains(self, ex, x):
    if isinstance(x, Sym) and hasattr(x, "e") and z3.is_expr(x.e) and x.e.sort() == self.sort:
        return SBool(self.member(x.e))
    raise Unsupported("membership of a value of another sort")


SymSet.sym_contains = _contains


class CheckDirStructure(Contract):
    target = f"{IE}._check_directory_structure_validity"
    properties = ("C16",)
    ctx_class = PathCtx

    def loops(self, case):
        q, = z3.Consts("cq", Path)
        j, i2 = z3.Ints("cj ci")

        def nodes_of(seq, upto):
            return lambda x: z3.Exists([j, i2], z3.And(0 <= j, j < upto, 1 <= i2, i2 < NT(seq.f(j)), x == PRE(seq.f(j), i2)))

        def chk(interp, fr):
            v = interp.lookup(fr, "check")
            if not isinstance(v, SymSet):
                raise Unsupported("check is not a set of paths")
            return v

        def inv_outer(interp, fr, i, seq):
            g = interp.ctx.ghost
            S = g["paths"]
            c = chk(interp, fr)
            if g.get("phase2"):
                # second loop: nothing met so far is a node (otherwise it had raised)
                return z3.ForAll([j], z3.Implies(z3.And(0 <= j, j < i), z3.Not(c.member(S.f(j)))))
            nd = nodes_of(S, i)
            return z3.ForAll([q], c.member(q) == nd(q))

        def inv_inner(interp, fr, t, seq):
            g = interp.ctx.ghost
            S, m = g["paths"], g["outer_i"]
            c = chk(interp, fr)
            dst = interp.lookup(fr, "dst").e
            nd = nodes_of(S, m)
            return z3.ForAll([q], c.member(q) == z3.Or(nd(q), z3.Exists([i2], z3.And(1 <= i2, i2 < 1 + t, i2 < NT(dst), q == PRE(dst, i2)))))

        def hv(interp, fr, tag):
            if interp.ctx.ghost.get("phase2") and tag.startswith("check@paths"):
                return chk(interp, fr)          # the second loop over the paths does not assign `check`
            return SymSet.fresh(interp.ex, tag, Path)

        def after_outer(interp, fr, seq):
            interp.ctx.ghost["phase2"] = True
        return {"paths": LoopSpec("paths", inv_outer, havoc={"check": hv}, scratch=("tokens", "i"), after=after_outer),
                "range": LoopSpec("tokens", inv_inner, havoc={"check": hv})}

    def setup(self, interp, case):
        ex = interp.ex
        S = SPathSeq(ex)
        p = z3.Const("ap", Path)
        ex.assume(z3.ForAll([p], NT(p) >= 1))
        interp.ctx.ghost["paths"] = S
        return [S], {}, {"S": S}

    def post(self, interp, case, pre, outcome):
        ex, S = interp.ex, pre["S"]
        a, b, i = z3.Ints("pa pb pi")
        clash = z3.Exists([a, b, i], z3.And(0 <= a, a < S.n, 0 <= b, b < S.n, 1 <= i, i < NT(S.f(b)), S.f(a) == PRE(S.f(b), i)))
        if outcome[0] == "return":
            ex.oblige(self.oname("ensures:accepted_only_if_no_export_path_is_also_a_directory_above_another_export_path"), z3.Not(clash))
        else:
            e = outcome[1]
            ex.oblige(self.oname("raises:RuntimeError_only_if_some_export_path_is_both_a_leaf_and_a_node"), z3.And(z3.BoolVal(isinstance(e, RuntimeError)), clash), note=repr(e))


# ============================================================================= _export_jobs: order of checks and copies


class SJobT(Sym):
    def __init__(self, name):
        self.name = name
        self.path = STok(f"{name}.path")

    def sym_getattr(self, ex, n):
        if n == "path":
            return self.path
        raise Unsupported(f"job.{n}")

    def __repr__(self):
        return self.name


class STok(Sym):
    def __init__(self, name):
        self.name = name

    def sym_hashable(self):
        return True

    def __repr__(self):
        return self.name


class ExportJobs(Contract):
    """bound stated: the job sequence is enumerated with 0, 1 and 3 jobs (the function treats jobs uniformly: one dict comprehension, one loop)"""
    target = f"{IE}._export_jobs"
    properties = ("C16",)

    def cases(self):
        return [{"path": p, "njobs": n} for p in ("callable", "None", "False", "str") for n in (0, 1, 3)]

    def make_ctx(self, case):
        ctx = super().make_ctx(case)
        g = ctx.ghost
        g["events"] = []
        g["dst"] = {}

        def pf(job):
            return g["dst"].setdefault(job.name, STok(f"dst({job.name})"))
        g["pf"] = NativeStub(pf, "path function")

        def uniq(interp, b):
            g["events"].append(("unique-check", b["jobs"], b["path_spec"], b["path_function"]))
        ctx.callee_contracts[f"{IE}._check_path_function_unique"] = uniq

        def mk(interp, b):
            g["events"].append(("make-path-function", b["jobs"], b["path"]))
            return g["pf"]
        ctx.callee_contracts[f"{IE}._make_path_function"] = mk

        def valid(interp, b):
            g["events"].append(("validity-check", list(b["paths"])))
        ctx.callee_contracts[f"{IE}._check_directory_structure_validity"] = valid
        return ctx

    def setup(self, interp, case):
        g = interp.ctx.ghost
        jobs = [SJobT(f"job{i}") for i in range(case["njobs"])]
        path = {"callable": g["pf"], "None": None, "False": False, "str": "a/{a}"}[case["path"]]
        cp = NativeStub(lambda src, dst: g["events"].append(("copytree", src, dst)), "copytree")
        return [], {"jobs": jobs, "path": path, "copytree": cp}, {"jobs": jobs, "path": path}

    def yield_hook(self, interp, case, pre):
        return lambda v: interp.ctx.ghost["events"].append(("yield", v))

    def post(self, interp, case, pre, outcome):
        ex, g = interp.ex, interp.ctx.ghost
        ev, jobs, path = g["events"], pre["jobs"], pre["path"]
        if outcome[0] != "return":
            ex.oblige(self.oname("raises:nothing_of_its_own"), False, note=repr(outcome[1]))
            return
        dst = lambda j: g["dst"].get(j.name)
        first = ("unique-check", jobs, path, g["pf"]) if case["path"] == "callable" else ("make-path-function", jobs, path)
        ok_first = bool(ev) and ev[0][0] == first[0] and all(a is b for a, b in zip(ev[0][1:], first[1:]))
        ex.oblige(self.oname("ensures:the_path_function_is_made_or_checked_for_uniqueness_before_anything_else"), z3.BoolVal(ok_first), note=repr(ev[:1]))
        ok_valid = len(ev) > 1 and ev[1][0] == "validity-check" and len(ev[1][1]) == len(jobs) and all(a is dst(j) for a, j in zip(ev[1][1], jobs))
        ex.oblige(self.oname("ensures:leaf_node_consistency_of_all_destinations_is_checked_before_the_first_copy"), z3.BoolVal(bool(ok_valid)), note=repr(ev[1:2]))
        rest = ev[2:]
        want = []
        for j in jobs:
            want += [("copytree", j.path, dst(j)), ("yield", (j.path, dst(j)))]
        ok_rest = len(rest) == len(want) and all(r[0] == w[0] and (r[1] is w[1] and r[2] is w[2] if r[0] == "copytree" else (isinstance(r[1], tuple) and r[1][0] is w[1][0] and r[1][1] is w[1][1]))
                                                 for r, w in zip(rest, want))
        ex.oblige(self.oname("ensures:every_job_is_copied_exactly_once_from_its_directory_to_its_own_destination_and_reported"), z3.BoolVal(bool(ok_rest)), note=repr(rest)[:300])


# ============================================================================= _check_path_function_unique

JobT = z3.DeclareSort("JobT")
PF = z3.Function("PF", JobT, Path)                      # the path function under test
CNT = z3.Function("CNT", Path, z3.IntSort())           # Counter(path_function(job) for job in jobs)[p]


class SJobSeqT(Sym):
    def __init__(self, ex):
        self.n = z3.Int("n_jobs")
        self.f = z3.Function("jobs", z3.IntSort(), JobT)
        ex.assume(self.n >= 0)


class SMapped(Sym):
    def __init__(self, seq):
        self.seq = seq


class SCounter(Sym):
    def __init__(self, seq):
        self.seq = seq

    def sym_getattr(self, ex, name):
        if name == "items":
            return NativeStub(lambda: SCounterItems(self), "Counter.items")
        raise Unsupported(f"Counter.{name}")


class SCounterItems(Sym):
    def __init__(self, c):
        self.c = c


class SPathSet(SymSet):
    def sym_len(self, ex):
        from contracts.jobfs import SCount
        return SCount(self.member, Path)

    def sym_iter(self, ex):
        n = z3.Int(ex.fresh_name("n_dups"))
        ex.assume(n >= 0)

        def at(interp, i):
            e = z3.Const(interp.ex.fresh_name("dup"), Path)
            interp.ex.assume(self.member(e))
            return SPath(e)
        return CutSeq(n, at, label="duplicates")


class UniqCtx(PathCtx):
    def __init__(self, contract, case):
        super().__init__(contract, case)
        from collections import Counter
        self.externals[Counter] = self.x_counter

    def x_counter(self, interp, it):
        if not isinstance(it, SMapped):
            raise Unsupported("Counter of this value")
        ex, S = interp.ex, it.seq
        ex.assumptions_used.add("collections.Counter: c[p] is the number of positions of the iterable holding p (stated as: c[p] >= 1 iff some position, c[p] >= 2 iff two positions)")
        p = z3.Const("cp", Path)
        a, b = z3.Ints("ca cb")
        ex.assume(z3.ForAll([p], z3.And(CNT(p) >= 0,
                                        (CNT(p) >= 1) == z3.Exists([a], z3.And(0 <= a, a < S.n, PF(S.f(a)) == p)),
                                        (CNT(p) >= 2) == z3.Exists([a, b], z3.And(0 <= a, a < b, b < S.n, PF(S.f(a)) == p, PF(S.f(b)) == p)))))
        return SCounter(S)

    def comprehension(self, interp, node, frame):
        import ast
        if isinstance(node, ast.GeneratorExp) and ast.unparse(node) == "(path_function(job) for job in jobs)":
            jobs = interp.lookup(frame, "jobs")
            if isinstance(jobs, SJobSeqT) and interp.lookup(frame, "path_function") is interp.ctx.ghost["pf"]:
                return SMapped(jobs)
        if isinstance(node, ast.SetComp) and len(node.generators) == 1:
            g = node.generators[0]
            it = interp.ev(g.iter, frame) if isinstance(g.iter, ast.Call) and isinstance(g.iter.func, ast.Attribute) and isinstance(g.iter.func.value, ast.Name) else None
            if isinstance(it, SCounterItems) and isinstance(g.target, ast.Tuple) and len(g.target.elts) == 2 and all(isinstance(e, ast.Name) for e in g.target.elts) \
                    and isinstance(node.elt, ast.Name) and node.elt.id == g.target.elts[0].id and len(g.ifs) == 1:
                p0 = z3.Const(interp.ex.fresh_name("cp"), Path)
                f = interp._comp_frame(frame)
                interp.assign_target(g.target.elts[0], SPath(p0), f)
                interp.assign_target(g.target.elts[1], SInt(CNT(p0)), f)
                c = interp.ev(g.ifs[0], f)
                ce = c.sym_truth(interp.ex) if isinstance(c, Sym) else z3.BoolVal(bool(c))
                return SPathSet(lambda x: z3.And(CNT(x) >= 1, z3.substitute(ce, (p0, x))), Path)
        return NotImplemented


class CheckPathFunctionUnique(Contract):
    target = f"{IE}._check_path_function_unique"
    properties = ("C16",)
    ctx_class = UniqCtx

    def loops(self, case):
        return {"duplicates": LoopSpec("log-duplicates", lambda interp, fr, i, seq: z3.BoolVal(True), scratch=("path",))}

    def setup(self, interp, case):
        ex, g = interp.ex, interp.ctx.ghost
        jobs = SJobSeqT(ex)
        g["pf"] = NativeStub(lambda j: (_ for _ in ()).throw(Unsupported("direct call of the path function")), "path function")
        return [jobs, "a/{a}", g["pf"]], {}, {"jobs": jobs}

    def post(self, interp, case, pre, outcome):
        ex, S = interp.ex, pre["jobs"]
        a, b = z3.Ints("pa pb")
        dup = z3.Exists([a, b], z3.And(0 <= a, a < b, b < S.n, PF(S.f(a)) == PF(S.f(b))))
        if outcome[0] == "return":
            ex.oblige(self.oname("ensures:accepted_only_if_no_two_jobs_share_an_export_path"), z3.Not(dup))
        else:
            e = outcome[1]
            ex.oblige(self.oname("raises:RuntimeError_only_if_two_jobs_share_an_export_path"), z3.And(z3.BoolVal(isinstance(e, RuntimeError)), dup), note=repr(e))


# ============================================================================= _make_path_function


class MakePathFunction(Contract):
    target = f"{IE}._make_path_function"
    properties = ("C16",)

    def cases(self):
        return [{"path": p} for p in ("None", "False", "str", "other")]

    def make_ctx(self, case):
        ctx = super().make_ctx(case)
        g = ctx.ghost
        g["events"] = []
        g["schema_pf"] = NativeStub(lambda job: STok("schema-path"), "schema based path function")

        def mk(interp, b):
            g["events"].append(("schema-based", b["jobs"], b.get("exclude_keys")))
            return g["schema_pf"]
        ctx.callee_contracts[f"{IE}._make_schema_based_path_function"] = mk

        def uniq(interp, b):
            g["events"].append(("unique-check", b["jobs"], b["path_spec"], b["path_function"]))
        ctx.callee_contracts[f"{IE}._check_path_function_unique"] = uniq
        return ctx

    def setup(self, interp, case):
        jobs = STok("jobs")
        path = {"None": None, "False": False, "str": "x/{a}/y", "other": 3}[case["path"]]
        return [jobs, path], {}, {"jobs": jobs, "path": path}

    def post(self, interp, case, pre, outcome):
        ex, g = interp.ex, interp.ctx.ghost
        ev = g["events"]
        if case["path"] == "other":
            ex.oblige(self.oname("raises:ValueError_for_any_other_path_argument"), z3.BoolVal(outcome[0] == "raise" and isinstance(outcome[1], ValueError)))
            return
        if outcome[0] != "return":
            ex.oblige(self.oname("raises:nothing_of_its_own"), False, note=repr(outcome[1]))
            return
        fn = outcome[1]
        checked = any(e[0] == "unique-check" and e[1] is pre["jobs"] and e[3] is fn for e in ev)
        if case["path"] == "False":
            label = interp.call(fn, [SJobId()], {})
            ex.oblige(self.oname("ensures:path_False_names_every_job_by_its_id_(unique_by_construction)"), z3.BoolVal(label == "the-id"), note=repr(label))
        else:
            ex.oblige(self.oname("ensures:a_generated_path_function_is_returned_only_after_it_was_checked_to_be_one_to_one"), z3.BoolVal(checked), note=repr(ev)[:200])
        if case["path"] == "str":
            sb = [e for e in ev if e[0] == "schema-based"]
            ex.oblige(self.oname("ensures:keys_named_in_the_path_string_are_excluded_from_the_automatic_part"), z3.BoolVal(len(sb) == 1 and [k for k in (sb[0][2] or []) if k is not None] == ["a"]), note=repr(sb))


class SJobId(Sym):
    def sym_getattr(self, ex, n):
        if n == "id":
            return "the-id"
        raise Unsupported(f"job.{n}")


CONTRACTS = [CheckDirStructure(), ExportJobs(), CheckPathFunctionUnique(), MakePathFunction()]
