"""Sidecar contracts for signac/import_export.py (C16): the leaf/node validity check of an export and the export driver.

Export paths are abstract (sort Path); what the check can observe of a path is its token sequence: NT(p) >= 1 tokens and, for
1 <= i <= NT(p), the path PRE(p, i) made of its first i tokens (contracts of str.split / str.join on os.sep, trusted).
"p is a node under which q lies" is then: p == PRE(q, i) for some 1 <= i < NT(q)."""
import os

import z3

from pyvc.core import CutSeq, NativeStub, RaiseSignal, SBool, SInt, Sym, Unsupported
from pyvc.interp import LoopSpec
from pyvc.theory_j import SymSet
from pyvc.verify import Contract, Ctx

IE = "signac.import_export"

Path = z3.DeclareSort("Path")
NT = z3.Function("NT", Path, z3.IntSort())
PRE = z3.Function("PRE", Path, z3.IntSort(), Path)


class SPath(Sym):
    def __init__(self, e):
        self.e = e

    def sym_hashable(self):
        return True

    def sym_isinstance(self, ex, cls):
        return cls in (str, object)

    def sym_getattr(self, ex, name):
        if name == "split":
            def split(sep):
                if sep != os.path.sep:
                    raise Unsupported("split on another separator")
                return STokens(self.e)
            return NativeStub(split, "str.split")
        raise Unsupported(f"str.{name} on an export path")

    def sym_eq(self, ex, other):
        if isinstance(other, SPath):
            return SBool(self.e == other.e)
        raise Unsupported("path == non-path")


class STokens(Sym):
    def __init__(self, p, upto=None):
        self.p, self.upto = p, upto

    def sym_len(self, ex):
        return SInt(NT(self.p) if self.upto is None else self.upto)

    def sym_getitem(self, ex, k):
        if self.upto is None and isinstance(k, slice) and k.start is None and k.step is None and isinstance(k.stop, SInt):
            return STokens(self.p, k.stop.e)
        raise Unsupported("token subscript shape")


class SPathSeq(Sym):
    def __init__(self, ex, tag="paths"):
        self.n = z3.Int(ex.fresh_name("n_" + tag))
        self.f = z3.Function(ex.fresh_name(tag), z3.IntSort(), Path)
        ex.assume(self.n >= 0)

    def sym_iter(self, ex):
        def at(interp, i):
            interp.ctx.ghost["outer_i"] = i
            return SPath(self.f(i))
        return CutSeq(self.n, at, label="paths")


class SRange(Sym):
    def __init__(self, lo, hi):
        self.lo, self.hi = lo, hi

    def sym_iter(self, ex):
        n = z3.If(self.hi > self.lo, self.hi - self.lo, 0)
        return CutSeq(n, lambda interp, i: SInt(self.lo + i), label="range")


def _z(v):
    return v.e if isinstance(v, SInt) else z3.IntVal(v)


class PathCtx(Ctx):
    def __init__(self, contract, case):
        super().__init__(contract, case)
        self.externals[set] = lambda interp, *a: SymSet.empty(Path) if not a else (_ for _ in ()).throw(Unsupported("set(x)"))
        self.externals[list] = lambda interp, a: a if isinstance(a, SPathSeq) else (_ for _ in ()).throw(Unsupported("list(x)"))
        self.externals[range] = self.x_range

    def x_range(self, interp, *a):
        if len(a) == 1:
            return SRange(z3.IntVal(0), _z(a[0]))
        if len(a) == 2:
            return SRange(_z(a[0]), _z(a[1]))
        raise Unsupported("range with a step")

    def str_join(self, interp, sep, parts):
        if sep == os.path.sep and isinstance(parts, STokens) and parts.upto is not None:
            interp.ex.assumptions_used.add("str.split / str.join on os.sep: PRE(p, i) is the path of the first i tokens of p, PRE(p, NT(p)) == p (trusted)")
            return SPath(PRE(parts.p, parts.upto))
        raise Unsupported("join shape")


def _contains(self, ex, x):
    if isinstance(x, Sym) and hasattr(x, "e") and z3.is_expr(x.e) and x.e.sort() == self.sort:
        return SBool(self.member(x.e))
    raise Unsupported("membership of a value of another sort")


SymSet.sym_contains = _contains


class CheckDirStructure(Contract):
    target = f"{IE}._check_directory_structure_validity"
    properties = ("C16", "C17")
    ctx_class = PathCtx

    def loops(self, case):
        q, = z3.Consts("cq", Path)
        j, i2 = z3.Ints("cj ci")

        def nodes_of(seq, upto):
            return lambda x: z3.Exists([j, i2], z3.And(0 <= j, j < upto, 1 <= i2, i2 < NT(seq.f(j)), x == PRE(seq.f(j), i2)))

        def chk(interp, fr):
            v = interp.lookup(fr, "check")
            if not isinstance(v, SymSet):
                raise Unsupported("check is not a set of paths")
            return v

        def inv_outer(interp, fr, i, seq):
            g = interp.ctx.ghost
            S = g["paths"]
            c = chk(interp, fr)
            if g.get("phase2"):
                # second loop: nothing met so far is a node (otherwise it had raised)
                return z3.ForAll([j], z3.Implies(z3.And(0 <= j, j < i), z3.Not(c.member(S.f(j)))))
            nd = nodes_of(S, i)
            return z3.ForAll([q], c.member(q) == nd(q))

        def inv_inner(interp, fr, t, seq):
            g = interp.ctx.ghost
            S, m = g["paths"], g["outer_i"]
            c = chk(interp, fr)
            dst = interp.lookup(fr, "dst").e
            nd = nodes_of(S, m)
            return z3.ForAll([q], c.member(q) == z3.Or(nd(q), z3.Exists([i2], z3.And(1 <= i2, i2 < 1 + t, i2 < NT(dst), q == PRE(dst, i2)))))

        def hv(interp, fr, tag):
            if interp.ctx.ghost.get("phase2") and tag.startswith("check@paths"):
                return chk(interp, fr)          # the second loop over the paths does not assign `check`
            return SymSet.fresh(interp.ex, tag, Path)

        def after_outer(interp, fr, seq):
            interp.ctx.ghost["phase2"] = True
        return {"paths": LoopSpec("paths", inv_outer, havoc={"check": hv}, scratch=("tokens", "i"), after=after_outer),
                "range": LoopSpec("tokens", inv_inner, havoc={"check": hv})}

    def setup(self, interp, case):
        ex = interp.ex
        S = SPathSeq(ex)
        p = z3.Const("ap", Path)
        ex.assume(z3.ForAll([p], NT(p) >= 1))
        interp.ctx.ghost["paths"] = S
        return [S], {}, {"S": S}

    def post(self, interp, case, pre, outcome):
        ex, S = interp.ex, pre["S"]
        a, b, i = z3.Ints("pa pb pi")
        clash = z3.Exists([a, b, i], z3.And(0 <= a, a < S.n, 0 <= b, b < S.n, 1 <= i, i < NT(S.f(b)), S.f(a) == PRE(S.f(b), i)))
        if outcome[0] == "return":
            ex.oblige(self.oname("ensures:accepted_only_if_no_export_path_is_also_a_directory_above_another_export_path"), z3.Not(clash))
        else:
            e = outcome[1]
            ex.oblige(self.oname("raises:RuntimeError_only_if_some_export_path_is_both_a_leaf_and_a_node"), z3.And(z3.BoolVal(isinstance(e, RuntimeError)), clash), note=repr(e))


# ============================================================================= _export_jobs: order of checks and copies


class SJobT(Sym):
    def __init__(self, name):
        self.name = name
        self.path = STok(f"{name}.path")

    def sym_getattr(self, ex, n):
        if n == "path":
            return self.path
        raise Unsupported(f"job.{n}")

    def __repr__(self):
        return self.name


class STok(Sym):
    def __init__(self, name):
        self.name = name

    def sym_hashable(self):
        return True

    def __repr__(self):
        return self.name


class ExportJobs(Contract):
    """bound stated: the job sequence is enumerated with 0, 1 and 3 jobs (the function treats jobs uniformly: one dict comprehension, one loop)"""
    target = f"{IE}._export_jobs"
    properties = ("C16",)

    def cases(self):
        return [{"path": p, "njobs": n} for p in ("callable", "None", "False", "str") for n in (0, 1, 3)]

    def make_ctx(self, case):
        ctx = super().make_ctx(case)
        g = ctx.ghost
        g["events"] = []
        g["dst"] = {}

        def pf(job):
            return g["dst"].setdefault(job.name, STok(f"dst({job.name})"))
        g["pf"] = NativeStub(pf, "path function")

        def uniq(interp, b):
            g["events"].append(("unique-check", b["jobs"], b["path_spec"], b["path_function"]))
        ctx.callee_contracts[f"{IE}._check_path_function_unique"] = uniq

        def mk(interp, b):
            g["events"].append(("make-path-function", b["jobs"], b["path"]))
            return g["pf"]
        ctx.callee_contracts[f"{IE}._make_path_function"] = mk

        def valid(interp, b):
            g["events"].append(("validity-check", list(b["paths"])))
        ctx.callee_contracts[f"{IE}._check_directory_structure_validity"] = valid
        return ctx

    def setup(self, interp, case):
        g = interp.ctx.ghost
        jobs = [SJobT(f"job{i}") for i in range(case["njobs"])]
        path = {"callable": g["pf"], "None": None, "False": False, "str": "a/{a}"}[case["path"]]
        cp = NativeStub(lambda src, dst: g["events"].append(("copytree", src, dst)), "copytree")
        return [], {"jobs": jobs, "path": path, "copytree": cp}, {"jobs": jobs, "path": path}

    def yield_hook(self, interp, case, pre):
        return lambda v: interp.ctx.ghost["events"].append(("yield", v))

    def post(self, interp, case, pre, outcome):
        ex, g = interp.ex, interp.ctx.ghost
        ev, jobs, path = g["events"], pre["jobs"], pre["path"]
        if outcome[0] != "return":
            ex.oblige(self.oname("raises:nothing_of_its_own"), False, note=repr(outcome[1]))
            return
        dst = lambda j: g["dst"].get(j.name)
        first = ("unique-check", jobs, path, g["pf"]) if case["path"] == "callable" else ("make-path-function", jobs, path)
        ok_first = bool(ev) and ev[0][0] == first[0] and all(a is b for a, b in zip(ev[0][1:], first[1:]))
        ex.oblige(self.oname("ensures:the_path_function_is_made_or_checked_for_uniqueness_before_anything_else"), z3.BoolVal(ok_first), note=repr(ev[:1]))
        ok_valid = len(ev) > 1 and ev[1][0] == "validity-check" and len(ev[1][1]) == len(jobs) and all(a is dst(j) for a, j in zip(ev[1][1], jobs))
        ex.oblige(self.oname("ensures:leaf_node_consistency_of_all_destinations_is_checked_before_the_first_copy"), z3.BoolVal(bool(ok_valid)), note=repr(ev[1:2]))
        rest = ev[2:]
        want = []
        for j in jobs:
            want += [("copytree", j.path, dst(j)), ("yield", (j.path, dst(j)))]
        ok_rest = len(rest) == len(want) and all(r[0] == w[0] and (r[1] is w[1] and r[2] is w[2] if r[0] == "copytree" else (isinstance(r[1], tuple) and r[1][0] is w[1][0] and r[1][1] is w[1][1]))
                                                 for r, w in zip(rest, want))
        ex.oblige(self.oname("ensures:every_job_is_copied_exactly_once_from_its_directory_to_its_own_destination_and_reported"), z3.BoolVal(bool(ok_rest)), note=repr(rest)[:300])


# ============================================================================= _check_path_function_unique

JobT = z3.DeclareSort("JobT")
PF = z3.Function("PF", JobT, Path)                      # the path function under test
CNT = z3.Function("CNT", Path, z3.IntSort())           # Counter(path_function(job) for job in jobs)[p]


class SJobSeqT(Sym):
    def __init__(self, ex):
        self.n = z3.Int("n_jobs")
        self.f = z3.Function("jobs", z3.IntSort(), JobT)
        ex.assume(self.n >= 0)


class SMapped(Sym):
    def __init__(self, seq):
        self.seq = seq


class SCounter(Sym):
    def __init__(self, seq):
        self.seq = seq

    def sym_getattr(self, ex, name):
        if name == "items":
            return NativeStub(lambda: SCounterItems(self), "Counter.items")
        raise Unsupported(f"Counter.{name}")


class SCounterItems(Sym):
    def __init__(self, c):
        self.c = c


class SPathSet(SymSet):
    def sym_len(self, ex):
        from contracts.jobfs import SCount
        return SCount(self.member, Path)

    def sym_iter(self, ex):
        n = z3.Int(ex.fresh_name("n_dups"))
        ex.assume(n >= 0)

        def at(interp, i):
            e = z3.Const(interp.ex.fresh_name("dup"), Path)
            interp.ex.assume(self.member(e))
            return SPath(e)
        return CutSeq(n, at, label="duplicates")


class UniqCtx(PathCtx):
    def __init__(self, contract, case):
        super().__init__(contract, case)
        from collections import Counter
        self.externals[Counter] = self.x_counter

    def x_counter(self, interp, it):
        if not isinstance(it, SMapped):
            raise Unsupported("Counter of this value")
        ex, S = interp.ex, it.seq
        ex.assumptions_used.add("collections.Counter: c[p] is the number of positions of the iterable holding p (stated as: c[p] >= 1 iff some position, c[p] >= 2 iff two positions)")
        p = z3.Const("cp", Path)
        a, b = z3.Ints("ca cb")
        ex.assume(z3.ForAll([p], z3.And(CNT(p) >= 0,
                                        (CNT(p) >= 1) == z3.Exists([a], z3.And(0 <= a, a < S.n, PF(S.f(a)) == p)),
                                        (CNT(p) >= 2) == z3.Exists([a, b], z3.And(0 <= a, a < b, b < S.n, PF(S.f(a)) == p, PF(S.f(b)) == p)))))
        return SCounter(S)

    def comprehension(self, interp, node, frame):
        import ast
        if isinstance(node, ast.GeneratorExp) and ast.unparse(node) == "(path_function(job) for job in jobs)":
            jobs = interp.lookup(frame, "jobs")
            if isinstance(jobs, SJobSeqT) and interp.lookup(frame, "path_function") is interp.ctx.ghost["pf"]:
                return SMapped(jobs)
        if isinstance(node, ast.SetComp) and len(node.generators) == 1:
            g = node.generators[0]
            it = interp.ev(g.iter, frame) if isinstance(g.iter, ast.Call) and isinstance(g.iter.func, ast.Attribute) and isinstance(g.iter.func.value, ast.Name) else None
            if isinstance(it, SCounterItems) and isinstance(g.target, ast.Tuple) and len(g.target.elts) == 2 and all(isinstance(e, ast.Name) for e in g.target.elts) \
                    and isinstance(node.elt, ast.Name) and node.elt.id == g.target.elts[0].id and len(g.ifs) == 1:
                p0 = z3.Const(interp.ex.fresh_name("cp"), Path)
                f = interp._comp_frame(frame)
                interp.assign_target(g.target.elts[0], SPath(p0), f)
                interp.assign_target(g.target.elts[1], SInt(CNT(p0)), f)
                c = interp.ev(g.ifs[0], f)
                ce = c.sym_truth(interp.ex) if isinstance(c, Sym) else z3.BoolVal(bool(c))
                return SPathSet(lambda x: z3.And(CNT(x) >= 1, z3.substitute(ce, (p0, x))), Path)
        return NotImplemented


class CheckPathFunctionUnique(Contract):
    target = f"{IE}._check_path_function_unique"
    properties = ("C16", "C17")
    ctx_class = UniqCtx

    def loops(self, case):
        return {"duplicates": LoopSpec("log-duplicates", lambda interp, fr, i, seq: z3.BoolVal(True), scratch=("path",))}

    def setup(self, interp, case):
        ex, g = interp.ex, interp.ctx.ghost
        jobs = SJobSeqT(ex)
        g["pf"] = NativeStub(lambda j: (_ for _ in ()).throw(Unsupported("direct call of the path function")), "path function")
        return [jobs, "a/{a}", g["pf"]], {}, {"jobs": jobs}

    def post(self, interp, case, pre, outcome):
        ex, S = interp.ex, pre["jobs"]
        a, b = z3.Ints("pa pb")
        dup = z3.Exists([a, b], z3.And(0 <= a, a < b, b < S.n, PF(S.f(a)) == PF(S.f(b))))
        if outcome[0] == "return":
            ex.oblige(self.oname("ensures:accepted_only_if_no_two_jobs_share_an_export_path"), z3.Not(dup))
        else:
            e = outcome[1]
            ex.oblige(self.oname("raises:RuntimeError_only_if_two_jobs_share_an_export_path"), z3.And(z3.BoolVal(isinstance(e, RuntimeError)), dup), note=repr(e))


# ============================================================================= _make_path_function


class MakePathFunction(Contract):
    target = f"{IE}._make_path_function"
    properties = ("C16", "C17")

    def cases(self):
        return [{"path": p} for p in ("None", "False", "str", "other")]

    def make_ctx(self, case):
        ctx = super().make_ctx(case)
        g = ctx.ghost
        g["events"] = []
        g["schema_pf"] = NativeStub(lambda job: STok("schema-path"), "schema based path function")

        def mk(interp, b):
            g["events"].append(("schema-based", b["jobs"], b.get("exclude_keys")))
            return g["schema_pf"]
        ctx.callee_contracts[f"{IE}._make_schema_based_path_function"] = mk

        def uniq(interp, b):
            g["events"].append(("unique-check", b["jobs"], b["path_spec"], b["path_function"]))
        ctx.callee_contracts[f"{IE}._check_path_function_unique"] = uniq
        return ctx

    def setup(self, interp, case):
        jobs = STok("jobs")
        path = {"None": None, "False": False, "str": "x/{a}/y", "other": 3}[case["path"]]
        return [jobs, path], {}, {"jobs": jobs, "path": path}

    def post(self, interp, case, pre, outcome):
        ex, g = interp.ex, interp.ctx.ghost
        ev = g["events"]
        if case["path"] == "other":
            ex.oblige(self.oname("raises:ValueError_for_any_other_path_argument"), z3.BoolVal(outcome[0] == "raise" and isinstance(outcome[1], ValueError)))
            return
        if outcome[0] != "return":
            ex.oblige(self.oname("raises:nothing_of_its_own"), False, note=repr(outcome[1]))
            return
        fn = outcome[1]
        checked = any(e[0] == "unique-check" and e[1] is pre["jobs"] and e[3] is fn for e in ev)
        if case["path"] == "False":
            label = interp.call(fn, [SJobId()], {})
            ex.oblige(self.oname("ensures:path_False_names_every_job_by_its_id_(unique_by_construction)"), z3.BoolVal(label == "the-id"), note=repr(label))
        else:
            ex.oblige(self.oname("ensures:a_generated_path_function_is_returned_only_after_it_was_checked_to_be_one_to_one"), z3.BoolVal(checked), note=repr(ev)[:200])
        if case["path"] == "str":
            sb = [e for e in ev if e[0] == "schema-based"]
            ex.oblige(self.oname("ensures:keys_named_in_the_path_string_are_excluded_from_the_automatic_part"), z3.BoolVal(len(sb) == 1 and [k for k in (sb[0][2] or []) if k is not None] == ["a"]), note=repr(sb))


class SJobId(Sym):
    def sym_getattr(self, ex, n):
        if n == "id":
            return "the-id"
        raise Unsupported(f"job.{n}")


# ============================================================================= import side: _crawl_directory_data_space, _copy_to_job_workspace, _with_consistency_check

DirT = z3.DeclareSort("DirT")
REAL = z3.Function("REAL", DirT, DirT)                     # os.path.realpath
UNDER_WS = z3.Function("UNDER_WS", DirT, z3.BoolSort())    # realpath starts with the realpath of the project's workspace
WALK = z3.Function("WALK", z3.IntSort(), DirT)             # directory visited by the i-th step of os.walk
ISJOB = z3.Function("ISJOB", DirT, z3.BoolSort())          # the schema function identifies this directory as a job
JOBDIR = z3.Function("JOBDIR", DirT, DirT)                 # project.open_job(schema_function(path)).path


class SDirTok(Sym):
    def __init__(self, e):
        self.e = e

    def sym_eq(self, ex, other):
        if isinstance(other, SDirTok):
            return SBool(self.e == other.e)
        raise Unsupported("path == non-path")

    def sym_getattr(self, ex, name):
        if name == "startswith":
            def sw(prefix):
                if isinstance(prefix, SDirTok) and prefix.e.eq(REAL(WS)):
                    return SBool(UNDER_WS(self.e))
                raise Unsupported("startswith with this prefix")
            return NativeStub(sw, "str.startswith")
        raise Unsupported(f"str.{name} on a directory path")

    def sym_isinstance(self, ex, cls):
        return cls in (str, object)


WS = z3.Const("workspace", DirT)


class SDirsList(Sym):
    """the sub-directory list os.walk hands out: pruning it IN PLACE is what keeps os.walk from descending"""

    def __init__(self):
        self.pruned = False

    def sym_delitem(self, ex, k):
        if isinstance(k, slice) and k.start is None and k.stop is None and k.step is None:
            self.pruned = True
            return
        raise Unsupported("del dirs[...] shape")

    def sym_getattr(self, ex, name):
        if name == "clear":
            def clear():
                self.pruned = True
            return NativeStub(clear, "list.clear")
        raise Unsupported(f"dirs.{name}")

    def sym_setitem(self, ex, k, v):
        if isinstance(k, slice) and k.start is None and k.stop is None and k.step is None and v == []:
            self.pruned = True
            return
        raise Unsupported("dirs[...] = shape")


class SWalk(Sym):
    def __init__(self, ex):
        self.n = z3.Int("n_walk")
        ex.assume(self.n >= 0)

    def sym_iter(self, ex):
        def at(interp, i):
            g = interp.ctx.ghost
            g["cur_dirs"] = SDirsList()
            g["cur_path"] = WALK(i)
            g["yielded"] = []
            return (SDirTok(WALK(i)), g["cur_dirs"], "files")
        return CutSeq(self.n, at, label="walk")


class SProjTok(Sym):
    def sym_getattr(self, ex, name):
        if name == "workspace":
            return SDirTok(WS)
        if name == "open_job":
            def open_job(sp):
                if not (isinstance(sp, tuple) and sp and sp[0] == "statepoint-of"):
                    raise Unsupported("open_job argument")
                return SJobAt(JOBDIR(sp[1]))
            return NativeStub(open_job, "project.open_job")
        raise Unsupported(f"project.{name}")


class SJobAt(Sym):
    def __init__(self, d):
        self.d = d

    def sym_getattr(self, ex, name):
        if name == "path":
            return SDirTok(self.d)
        raise Unsupported(f"job.{name}")


class CrawlCtx(Ctx):
    def __init__(self, contract, case):
        super().__init__(contract, case)
        self.externals[os.walk] = lambda interp, root, *a, **k: SWalk(interp.ex) if not a and not k else (_ for _ in ()).throw(Unsupported("os.walk options"))
        self.externals[os.path.realpath] = lambda interp, p: SDirTok(REAL(p.e)) if isinstance(p, SDirTok) else (_ for _ in ()).throw(Unsupported("realpath shape"))


class CrawlDataSpace(Contract):
    target = f"{IE}._crawl_directory_data_space"
    properties = ("C16",)
    ctx_class = CrawlCtx
    assumptions = ("os.walk: a directory's sub-directories are visited iff they are still in the list handed out with it when the next step is taken (top-down walk)",)

    def loops(self, case):
        def body(interp, fr, writes):
            ex, g = interp.ex, interp.ctx.ghost
            d, dirs, ys = g["cur_path"], g["cur_dirs"], g["yielded"]
            ex.oblige(self.oname("body:an_identified_job_directory_is_not_descended_into_(sub-directory_list_pruned_in_place)"),
                      z3.Implies(ISJOB(d), z3.BoolVal(dirs.pruned)))
            ex.oblige(self.oname("body:other_directories_are_descended_into"), z3.Implies(z3.Not(ISJOB(d)), z3.BoolVal(not dirs.pruned)))
            want = z3.And(ISJOB(d), REAL(d) != REAL(JOBDIR(d)), z3.Not(UNDER_WS(REAL(d))))
            ok_shape = len(ys) <= 1 and all(isinstance(y, tuple) and len(y) == 2 and isinstance(y[0], SDirTok) and isinstance(y[1], SJobAt) for y in ys)
            ex.oblige(self.oname("body:a_directory_is_reported_for_import_iff_it_is_a_job_that_is_not_already_part_of_the_workspace"),
                      z3.And(z3.BoolVal(ok_shape), z3.BoolVal(len(ys) == 1) == want))
            if ok_shape and ys:
                ex.oblige(self.oname("body:reported_with_the_job_its_state_point_opens"), z3.And(ys[0][0].e == d, ys[0][1].d == JOBDIR(d)))
        return {"walk": LoopSpec("walk", lambda interp, fr, i, seq: z3.BoolVal(True), scratch=("path", "dirs", "_", "sp", "job", "dst"), heap_frame=body)}

    def setup(self, interp, case):
        g = interp.ctx.ghost

        def schema(interp_, path):
            if not isinstance(path, SDirTok):
                raise Unsupported("schema function argument")
            if interp.ex.decide(ISJOB(path.e), "schema:identifies-a-job"):
                return ("statepoint-of", path.e)
            return None
        g["yielded"] = []
        return [SDirTok(z3.Const("root", DirT)), SProjTok(), NativeStub(lambda path: schema(None, path), "schema function")], {}, {}

    def yield_hook(self, interp, case, pre):
        return lambda v: interp.ctx.ghost["yielded"].append(v)

    def post(self, interp, case, pre, outcome):
        if outcome[0] != "return":
            interp.ex.oblige(self.oname("raises:nothing_of_its_own"), False, note=repr(outcome[1]))


class CopyToJobWorkspace(Contract):
    target = f"{IE}._copy_to_job_workspace"
    properties = ("C16",)

    def cases(self):
        import errno
        return [{"err": None}] + [{"err": e} for e in ("EEXIST", "ENOTEMPTY", "EACCES", "ENOSPC", "EIO")]

    def setup(self, interp, case):
        import errno
        g = interp.ctx.ghost
        g["events"] = []
        dst = STok("job.path")

        class SJob(Sym):
            def sym_getattr(self, ex, name):
                if name == "path":
                    return dst
                if name == "init":
                    return NativeStub(lambda *a, **k: g["events"].append(("init", a, k)), "job.init")
                raise Unsupported(f"job.{name}")

        def copytree(src, d):
            g["events"].append(("copytree", src, d))
            if case["err"]:
                raise RaiseSignal(OSError(getattr(errno, case["err"]), "injected"))
        job = SJob()
        src = STok("src")
        return [src, job, NativeStub(copytree, "copytree")], {}, {"src": src, "job": job, "dst": dst}

    def post(self, interp, case, pre, outcome):
        from signac.errors import DestinationExistsError
        ex, ev = interp.ex, interp.ctx.ghost["events"]
        first = bool(ev) and ev[0] == ("copytree", pre["src"], pre["dst"]) and ev[0][1] is pre["src"] and ev[0][2] is pre["dst"]
        ex.oblige(self.oname("ensures:the_source_is_copied_to_the_job_directory_first"), z3.BoolVal(first), note=repr(ev))
        if case["err"] is None:
            ok = outcome[0] == "return" and outcome[1] is pre["dst"] and ev[1:] == [("init", (), {})]
            ex.oblige(self.oname("ensures:after_a_successful_copy_the_job_is_initialised_(validated)_once_and_its_directory_returned"), z3.BoolVal(bool(ok)), note=repr((outcome, ev)))
        else:
            e = outcome[1] if outcome[0] == "raise" else None
            ex.oblige(self.oname("raises:no_initialisation_after_a_failed_copy"), z3.BoolVal(len(ev) == 1 and e is not None))
            if case["err"] in ("EEXIST", "ENOTEMPTY", "EACCES"):
                ex.oblige(self.oname("raises:an_occupied_destination_is_reported_as_DestinationExistsError_naming_the_job"),
                          z3.BoolVal(isinstance(e, DestinationExistsError) and e.args and e.args[0] is pre["job"]), note=repr(e))
            else:
                ex.oblige(self.oname("raises:other_errors_pass_through_unchanged"), z3.BoolVal(isinstance(e, OSError) and not isinstance(e, DestinationExistsError)), note=repr(e))


class WithConsistencyCheck(Contract):
    target = f"{IE}._with_consistency_check"
    properties = ("C16",)

    def cases(self):
        return [{"same": True}] + [{"same": False, "sp": a, "file": b} for a in ("none", "A") for b in ("none", "A", "B")]

    def setup(self, interp, case):
        g = interp.ctx.ghost
        g["calls"] = []
        A, B = {"a": 1}, {"a": 2}
        val = {"none": None, "A": A, "B": B}

        def mk(name, key):
            def f(path):
                g["calls"].append((name, path))
                return val[case.get(key, "A")]
            return NativeStub(f, name)
        rd = mk("read_statepoint_file", "file")
        sf = rd if case["same"] else mk("schema_function", "sp")
        return [sf, rd], {}, {"sf": sf, "rd": rd, "val": val}

    def post(self, interp, case, pre, outcome):
        from signac.errors import StatepointParsingError
        ex, g = interp.ex, interp.ctx.ghost
        if outcome[0] != "return":
            ex.oblige(self.oname("raises:nothing_when_wrapping"), False, note=repr(outcome[1]))
            return
        check = outcome[1]
        path = STok("path")
        try:
            r = ("return", interp.call(check, [path], {}))
        except RaiseSignal as e:
            r = ("raise", e.exc)
        calls = g["calls"]
        if case["same"]:
            ex.oblige(self.oname("ensures:the_state_point_file_reader_alone_is_called_once"), z3.BoolVal(r == ("return", pre["val"]["A"]) and calls == [("read_statepoint_file", path)]), note=repr((r, calls)))
            return
        sp, fl = pre["val"][case["sp"]], pre["val"][case["file"]]
        conflict = bool(sp) and bool(fl) and sp != fl
        if conflict:
            ex.oblige(self.oname("raises:StatepointParsingError_when_schema_and_state_point_file_disagree"), z3.BoolVal(r[0] == "raise" and isinstance(r[1], StatepointParsingError)), note=repr(r))
        else:
            ex.oblige(self.oname("ensures:otherwise_the_schema's_state_point_is_returned"), z3.BoolVal(r[0] == "return" and r[1] is sp), note=repr(r))


# ============================================================================= _analyze_directory_for_import

JobK = z3.DeclareSort("JobK")                         # a job up to equality (Job.__eq__ / __hash__: id and project)
CR_SRC = z3.Function("CR_SRC", z3.IntSort(), DirT)    # i-th pair produced by _crawl_directory_data_space
CR_JOB = z3.Function("CR_JOB", z3.IntSort(), JobK)


class SJobK(Sym):
    def __init__(self, e):
        self.e = e

    def sym_hashable(self):
        return True


class SCrawl(Sym):
    def __init__(self, ex):
        self.n = z3.Int("n_crawl")
        ex.assume(self.n >= 0)

    def sym_iter(self, ex):
        def at(interp, i):
            interp.ctx.ghost["cur_i"] = i
            interp.ctx.ghost["yielded"] = []
            return (SDirTok(CR_SRC(i)), SJobK(CR_JOB(i)))
        return CutSeq(self.n, at, label="crawl")


class AnalyzeCtx(Ctx):
    def __init__(self, contract, case):
        super().__init__(contract, case)
        self.externals[set] = lambda interp, *a: SymSet.empty(JobK) if not a else (_ for _ in ()).throw(Unsupported("set(x)"))
        self.externals[os.path.join] = lambda interp, *a: ("join",) + a
        self.externals[os.path.normpath] = lambda interp, a: ("normpath", a)
        # not used by the current code: the crawl walks `root` as given, so a schema path anchored in any other spelling of the root
        # (absolute, resolved) matches none of the walked paths when the origin is given relatively
        self.externals[os.path.abspath] = lambda interp, a: ("abspath", a)
        self.externals[os.path.realpath] = lambda interp, a: ("realpath", a)

    def instantiate(self, interp, rc, args, kw):
        if rc.name == "_CopyFromDirectoryExecutor":
            return ("executor", args, kw)
        return NotImplemented


class AnalyzeDirectoryForImport(Contract):
    target = f"{IE}._analyze_directory_for_import"
    properties = ("C16",)
    ctx_class = AnalyzeCtx

    def cases(self):
        return [{"schema": k} for k in ("None", "callable", "relative-str", "rooted-str", "other")]

    def loops(self, case):
        j = z3.Int("aj")
        k = z3.Const("ak", JobK)

        def seen(interp, fr):
            v = interp.lookup(fr, "jobs")
            if not isinstance(v, SymSet):
                raise Unsupported("jobs is not a set")
            return v

        def inv(interp, fr, i, seq):
            c = seen(interp, fr)
            return z3.And(z3.ForAll([k], c.member(k) == z3.Exists([j], z3.And(0 <= j, j < i, CR_JOB(j) == k))),
                          z3.ForAll([j, z3.Int("aj2")], z3.Implies(z3.And(0 <= j, j < z3.Int("aj2"), z3.Int("aj2") < i), CR_JOB(j) != CR_JOB(z3.Int("aj2")))))

        def body(interp, fr, writes):
            ex, g = interp.ex, interp.ctx.ghost
            i, ys = g["cur_i"], g["yielded"]
            ok = len(ys) == 1 and isinstance(ys[0], tuple) and len(ys[0]) == 2 and isinstance(ys[0][0], SDirTok) and isinstance(ys[0][1], tuple) and ys[0][1][0] == "executor"
            ex.oblige(self.oname("body:every_crawled_source_is_reported_once_with_a_copy_executor"), z3.BoolVal(ok), note=repr(ys)[:200])
            if ok:
                a = ys[0][1][1]
                ex.oblige(self.oname("body:the_executor_copies_this_source_into_this_job"),
                          z3.And(z3.BoolVal(len(a) == 2 and isinstance(a[0], SDirTok) and isinstance(a[1], SJobK) and not ys[0][1][2]), ys[0][0].e == CR_SRC(i),
                                 a[0].e == CR_SRC(i), a[1].e == CR_JOB(i)) if len(a) == 2 and isinstance(a[0], SDirTok) and isinstance(a[1], SJobK) else z3.BoolVal(False))
        return {"crawl": LoopSpec("crawl", inv, havoc={"jobs": lambda interp, fr, tag: SymSet.fresh(interp.ex, tag, JobK)}, scratch=("src", "job", "copy_executor"), heap_frame=body)}

    def make_ctx(self, case):
        ctx = super().make_ctx(case)
        g = ctx.ghost
        g["yielded"] = []

        def crawl(interp, b):
            g["crawl_args"] = (b["root"], b["project"], b["schema_function"])
            return SCrawl(interp.ex)
        ctx.callee_contracts[f"{IE}._crawl_directory_data_space"] = crawl

        def wcc(interp, b):
            return ("consistency-checked", b["schema_function"], b["read_statepoint_file"])
        ctx.callee_contracts[f"{IE}._with_consistency_check"] = wcc
        ctx.callee_contracts[f"{IE}._make_path_based_schema_function"] = lambda interp, b: ("path-schema", b["schema_path"])
        return ctx

    def setup(self, interp, case):
        g = interp.ctx.ghost
        root = "/data/root"
        g["user_schema"] = NativeStub(lambda p: None, "user schema function")
        schema = {"None": None, "callable": g["user_schema"], "relative-str": "a/{a:int}", "rooted-str": "/data/root/a/{a:int}", "other": 3}[case["schema"]]
        proj = STok("project")
        return [root, proj, schema], {}, {"root": root, "proj": proj, "schema": schema}

    def yield_hook(self, interp, case, pre):
        return lambda v: interp.ctx.ghost["yielded"].append(v)

    def post(self, interp, case, pre, outcome):
        from signac.errors import StatepointParsingError
        from pyvc.interp import Closure
        ex, g = interp.ex, interp.ctx.ghost
        if case["schema"] == "other":
            ex.oblige(self.oname("raises:TypeError_for_any_other_schema_argument"), z3.BoolVal(outcome[0] == "raise" and isinstance(outcome[1], TypeError) and "crawl_args" not in g))
            return
        ca = g.get("crawl_args")
        rd = lambda v: isinstance(v, Closure) and v.node.name == "read_statepoint_file"
        if ca is None:
            ex.oblige(self.oname("ensures:the_data_space_is_crawled"), False)
            return
        sf = ca[2]
        if case["schema"] == "None":
            ok = rd(sf)
        elif case["schema"] == "callable":
            ok = isinstance(sf, tuple) and sf[0] == "consistency-checked" and sf[1] is g["user_schema"] and rd(sf[2])
        else:
            want = "/data/root/a/{a:int}" if case["schema"] == "rooted-str" else ("normpath", ("join", "/data/root", "a/{a:int}"))
            ok = isinstance(sf, tuple) and sf[0] == "consistency-checked" and sf[1] == ("path-schema", want) and rd(sf[2])
        ex.oblige(self.oname("ensures:crawled_from_the_root_with_the_schema_function_chosen_by_the_schema_argument_(always_cross-checked_against_the_state_point_file)"),
                  z3.BoolVal(bool(ok and ca[0] == pre["root"] and ca[1] is pre["proj"])), note=repr(ca)[:300])
        a, b = z3.Ints("pa pb")
        n = z3.Int("n_crawl")
        dup = z3.Exists([a, b], z3.And(0 <= a, a < b, b < n, CR_JOB(a) == CR_JOB(b)))
        if outcome[0] == "return":
            ex.oblige(self.oname("ensures:completes_only_if_no_two_sources_map_to_the_same_job"), z3.Not(dup))
        else:
            e = outcome[1]
            ex.oblige(self.oname("raises:StatepointParsingError_only_if_two_sources_map_to_the_same_job"), z3.And(z3.BoolVal(isinstance(e, StatepointParsingError)), dup), note=repr(e))


# ============================================================================= export_jobs: which exporter a target reaches


class SArchive(Sym):
    def __init__(self, kind, mode=None, opened_by_us=False):
        self.kind, self.mode, self.opened_by_us = kind, mode, opened_by_us
        self.closed = False

    def sym_with(self, interp, body):
        try:
            return body(self)
        finally:
            self.closed = True

    def sym_isinstance(self, ex, cls):
        import tarfile as _t
        from zipfile import ZipFile as _Z
        return (cls is _Z and self.kind == "zip") or (cls is _t.TarFile and self.kind == "tar") or cls is object


class ExportJobsDispatch(Contract):
    """the target's extension (or type) is the only thing examined: one case per extension class"""
    target = f"{IE}.export_jobs"
    properties = ("C16",)

    TARGETS = {"dir": "out/data", "zip": "out/data.zip", "tar": "out/data.tar", "gz": "out/data.tar.gz", "bz2": "out/data.tar.bz2", "xz": "out/data.tar.xz", "txt": "out/data.txt",
               "ZipFile": "zip-object", "TarFile": "tar-object", "other": 3}

    def cases(self):
        return [{"target": t, "copytree": c} for t in self.TARGETS for c in (False, True)]

    def make_ctx(self, case):
        import tarfile
        import zipfile
        ctx = super().make_ctx(case)
        g = ctx.ghost
        g["calls"], g["opened"], g["out"] = [], [], []

        def exporter(name):
            def stub(interp, b):
                g["calls"].append((name, dict(b)))
                return [(STok("src1"), STok("dst1"))]
            return stub
        ctx.callee_contracts[f"{IE}.export_to_directory"] = exporter("directory")
        ctx.callee_contracts[f"{IE}.export_to_zipfile"] = exporter("zipfile")
        ctx.callee_contracts[f"{IE}.export_to_tarfile"] = exporter("tarfile")

        def zopen(interp, *a, **k):
            o = SArchive("zip", k.get("mode", a[1] if len(a) > 1 else "r"), True)
            g["opened"].append((o, a, k))
            return o

        def topen(interp, *a, **k):
            o = SArchive("tar", k.get("mode", a[1] if len(a) > 1 else "r"), True)
            g["opened"].append((o, a, k))
            return o
        ctx.externals[zipfile.ZipFile] = zopen
        ctx.externals[tarfile.open] = topen
        return ctx

    def setup(self, interp, case):
        t = self.TARGETS[case["target"]]
        if t == "zip-object":
            t = SArchive("zip")
        elif t == "tar-object":
            t = SArchive("tar")
        jobs, path = STok("jobs"), STok("path")
        ct = STok("copytree") if case["copytree"] else None
        return [], {"jobs": jobs, "target": t, "path": path, "copytree": ct}, {"jobs": jobs, "t": t, "path": path, "ct": ct}

    def yield_hook(self, interp, case, pre):
        return lambda v: interp.ctx.ghost["out"].append(v)

    def post(self, interp, case, pre, outcome):
        from zipfile import ZIP_DEFLATED
        ex, g = interp.ex, interp.ctx.ghost
        t, kind, calls, opened = pre["t"], case["target"], g["calls"], g["opened"]
        if case["copytree"] and kind != "dir":
            ex.oblige(self.oname("raises:a_custom_copytree_is_refused_for_anything_but_a_directory_target_before_anything_is_exported"),
                      z3.BoolVal(outcome[0] == "raise" and isinstance(outcome[1], ValueError) and not calls and not opened), note=repr((outcome, calls)))
            return
        if kind in ("txt", "other"):
            ex.oblige(self.oname("raises:TypeError_for_an_unknown_extension_or_target_type"), z3.BoolVal(outcome[0] == "raise" and isinstance(outcome[1], TypeError) and not calls and not opened), note=repr(outcome))
            return
        if outcome[0] != "return":
            ex.oblige(self.oname("raises:nothing_for_a_supported_target"), False, note=repr(outcome[1]))
            return
        want = {"dir": "directory", "zip": "zipfile", "ZipFile": "zipfile"}.get(kind, "tarfile")
        ok = len(calls) == 1 and calls[0][0] == want and calls[0][1].get("jobs") is pre["jobs"] and calls[0][1].get("path") is pre["path"]
        ex.oblige(self.oname("ensures:exactly_one_exporter,_the_one_for_the_target's_kind,_gets_the_jobs_and_the_path_specification"), z3.BoolVal(bool(ok)), note=repr(calls)[:300])
        ex.oblige(self.oname("ensures:what_the_exporter_reports_is_passed_on"), z3.BoolVal(len(g["out"]) == 1))
        if not ok:
            return
        b = calls[0][1]
        if kind == "dir":
            ex.oblige(self.oname("ensures:a_directory_export_goes_to_the_target_with_the_caller's_copytree"), z3.BoolVal(b.get("target") == t and b.get("copytree") is pre["ct"] and not opened))
        elif kind in ("ZipFile", "TarFile"):
            ex.oblige(self.oname("ensures:an_archive_object_is_used_as_it_is"), z3.BoolVal((b.get("zipfile") if kind == "ZipFile" else b.get("tarfile")) is t and not opened))
        else:
            mode = {"zip": "w", "tar": "a", "gz": "w:gz", "bz2": "w:bz2", "xz": "w:xz"}[kind]
            o = opened[0][0] if len(opened) == 1 else None
            k = opened[0][2] if o else {}
            a = opened[0][1] if o else ()
            name_ok = o is not None and ((a and a[0] == t) or k.get("name") == t)
            ok2 = name_ok and o.mode == mode and o.closed and (b.get("zipfile") if kind == "zip" else b.get("tarfile")) is o and (kind != "zip" or k.get("compression") == ZIP_DEFLATED)
            ex.oblige(self.oname("ensures:an_archive_path_is_opened_in_the_mode_of_its_extension,_exported_into,_and_closed"), z3.BoolVal(bool(ok2)), note=repr((opened, b))[:300])


CONTRACTS = [CheckDirStructure(), ExportJobs(), CheckPathFunctionUnique(), MakePathFunction(), CrawlDataSpace(), CopyToJobWorkspace(), WithConsistencyCheck(),
             AnalyzeDirectoryForImport(), ExportJobsDispatch()]


# ============================================================================= import front end: _prepare_import_into_project, import_into_project


class PrepareImport(Contract):
    target = f"{IE}._prepare_import_into_project"
    properties = ("C16",)

    def cases(self):
        return [{"origin": o} for o in ("zip", "tar", "other-file", "dir", "missing")]

    def make_ctx(self, case):
        import tarfile
        import zipfile
        from tempfile import TemporaryDirectory
        ctx = super().make_ctx(case)
        g = ctx.ghost
        g["calls"], g["opened"], g["body_seen"] = [], [], []
        k = case["origin"]
        ctx.externals[os.path.isfile] = lambda interp, p: k in ("zip", "tar", "other-file")
        ctx.externals[os.path.isdir] = lambda interp, p: k == "dir"
        ctx.externals[zipfile.is_zipfile] = lambda interp, p: k == "zip"
        ctx.externals[tarfile.is_tarfile] = lambda interp, p: k == "tar"

        def opener(kind):
            def f(interp, *a, **kw):
                o = SArchive(kind, kw.get("mode", "r"), True)
                g["opened"].append((o, a, kw))
                return o
            return f
        ctx.externals[zipfile.ZipFile] = opener("zip")
        ctx.externals[tarfile.open] = opener("tar")
        ctx.externals[TemporaryDirectory] = opener("tmpdir")

        def analyser(name):
            def stub(interp, b):
                g["calls"].append((name, dict(b)))
                return STok(f"mapping-from-{name}")
            return stub
        ctx.callee_contracts[f"{IE}._analyze_zipfile_for_import"] = analyser("zip")
        ctx.callee_contracts[f"{IE}._analyze_tarfile_for_import"] = analyser("tar")
        ctx.callee_contracts[f"{IE}._analyze_directory_for_import"] = analyser("dir")
        return ctx

    def setup(self, interp, case):
        origin, proj, schema = "ORIGIN", STok("project"), STok("schema")
        return [origin, proj, schema], {}, {"origin": origin, "proj": proj, "schema": schema}

    def yield_hook(self, interp, case, pre):
        def hook(v):
            g = interp.ctx.ghost
            # the with-body of the caller runs here: archives / temporary directory must still be open
            g["body_seen"].append((v, [o.closed for o, _, _ in g["opened"]]))
        return hook

    def post(self, interp, case, pre, outcome):
        ex, g, k = interp.ex, interp.ctx.ghost, case["origin"]
        if k == "other-file":
            ex.oblige(self.oname("raises:RuntimeError_for_a_file_that_is_no_archive"), z3.BoolVal(outcome[0] == "raise" and isinstance(outcome[1], RuntimeError) and not g["calls"]), note=repr(outcome))
            return
        if k == "missing":
            ex.oblige(self.oname("raises:ValueError_for_an_origin_that_does_not_exist"), z3.BoolVal(outcome[0] == "raise" and isinstance(outcome[1], ValueError) and not g["calls"]), note=repr(outcome))
            return
        calls, seen = g["calls"], g["body_seen"]
        ok = outcome[0] == "return" and len(calls) == 1 and calls[0][0] == k and calls[0][1].get("project") is pre["proj"] and calls[0][1].get("schema") is pre["schema"]
        ex.oblige(self.oname("ensures:the_analyser_for_the_origin's_kind_gets_the_project_and_the_schema"), z3.BoolVal(bool(ok)), note=repr(calls)[:300])
        ex.oblige(self.oname("ensures:its_mapping_is_handed_to_the_caller_while_the_archive_(and_temporary_directory)_is_still_open"),
                  z3.BoolVal(len(seen) == 1 and isinstance(seen[0][0], STok) and not any(seen[0][1])), note=repr(seen))
        if ok and k == "dir":
            ex.oblige(self.oname("ensures:a_directory_is_analysed_from_its_root"), z3.BoolVal(calls[0][1].get("root") == pre["origin"] and not g["opened"]))
        if ok and k in ("zip", "tar"):
            arch = [o for o, _, _ in g["opened"] if o.kind == k]
            b = calls[0][1]
            okk = len(arch) == 1 and (b.get("zipfile") if k == "zip" else b.get("tarfile")) is arch[0] and all(o.closed for o, _, _ in g["opened"])
            if k == "tar":
                tmp = [o for o, _, _ in g["opened"] if o.kind == "tmpdir"]
                okk = okk and len(tmp) == 1 and b.get("tmpdir") is tmp[0]
            ex.oblige(self.oname("ensures:an_archive_is_opened_read-only,_analysed,_and_closed_afterwards"), z3.BoolVal(bool(okk)), note=repr(g["opened"])[:200])


class ImportIntoProject(Contract):
    target = f"{IE}.import_into_project"
    properties = ("C16",)

    def cases(self):
        return [{"origin": o, "copytree": c, "n": n} for o in ("dir", "archive") for c in (False, True) for n in (0, 2)]

    def make_ctx(self, case):
        import shutil
        ctx = super().make_ctx(case)
        g = ctx.ghost
        g["copies"], g["out"] = [], []
        ctx.externals[os.path.isdir] = lambda interp, p: case["origin"] == "dir"

        def mkexec(i):
            def ex_(ct=None):
                g["copies"].append((i, ct))
                return STok(f"dst{i}")
            return NativeStub(ex_, f"executor{i}")
        g["mapping"] = [(STok(f"src{i}"), mkexec(i)) for i in range(case["n"])]

        class CM(Sym):
            def sym_with(self, interp, body):
                return body(g["mapping"])

        def prep(interp, b):
            g["prep"] = dict(b)
            return CM()
        ctx.callee_contracts[f"{IE}._prepare_import_into_project"] = prep
        g["shutil_copytree"] = shutil.copytree
        return ctx

    def setup(self, interp, case):
        proj, schema = STok("project"), STok("schema")
        ct = STok("copytree") if case["copytree"] else None
        return ["ORIGIN", proj], {"schema": schema, "copytree": ct}, {"proj": proj, "schema": schema, "ct": ct}

    def yield_hook(self, interp, case, pre):
        return lambda v: interp.ctx.ghost["out"].append(v)

    def post(self, interp, case, pre, outcome):
        import shutil
        ex, g = interp.ex, interp.ctx.ghost
        if outcome[0] != "return":
            ex.oblige(self.oname("raises:nothing_of_its_own"), False, note=repr(outcome[1]))
            return
        p = g.get("prep", {})
        ex.oblige(self.oname("ensures:the_origin_is_prepared_with_the_project_and_the_schema"), z3.BoolVal(p.get("origin") == "ORIGIN" and p.get("project") is pre["proj"] and p.get("schema") is pre["schema"]), note=repr(p))
        want_ct = pre["ct"] if pre["ct"] is not None else (shutil.copytree if case["origin"] == "dir" else None)
        ok = [c[0] for c in g["copies"]] == list(range(case["n"])) and all((c[1] is want_ct) or (want_ct is shutil.copytree and getattr(c[1], "real", c[1]) is shutil.copytree) for c in g["copies"])
        ex.oblige(self.oname("ensures:every_mapped_source_is_copied_exactly_once,_with_the_caller's_copytree_(default:_shutil.copytree_for_a_directory,_the_archive's_own_way_otherwise)"),
                  z3.BoolVal(bool(ok)), note=repr(g["copies"]))
        out_ok = len(g["out"]) == case["n"] and all(isinstance(o, tuple) and o[0] is g["mapping"][i][0] and isinstance(o[1], STok) and o[1].name == f"dst{i}" for i, o in enumerate(g["out"]))
        ex.oblige(self.oname("ensures:each_copy_is_reported_as_(source,_destination)"), z3.BoolVal(bool(out_ok)), note=repr(g["out"]))


class ProjectImportFrom(Contract):
    target = "signac.project.Project.import_from"
    properties = ("C16",)

    def cases(self):
        return [{"sync": k} for k in ("None", "True", "options")]

    def make_ctx(self, case):
        ctx = super().make_ctx(case)
        g = ctx.ghost
        g["ev"] = []

        def imp(interp, b):
            g["ev"].append(("import_into_project", dict(b)))
            return [(STok("src"), STok("dst"))]
        ctx.callee_contracts[f"{IE}.import_into_project"] = imp

        class STmp(Sym):
            def sym_getattr(self, ex, name):
                if name == "import_from":
                    def f(*a, **k):
                        g["ev"].append(("tmp.import_from", a, k))
                        return g["tmp_ret"]
                    return NativeStub(f, "tmp_project.import_from")
                raise Unsupported(f"tmp_project.{name}")
        g["tmp"] = STmp()
        g["tmp_ret"] = STok("mapping-of-the-temporary-import")

        class CM(Sym):
            def sym_with(self, interp, body):
                g["ev"].append(("enter-temporary-project",))
                try:
                    return body(g["tmp"])
                finally:
                    g["ev"].append(("exit-temporary-project",))
        ctx.callee_contracts["signac.project.Project.temporary_project"] = lambda interp, b: CM()

        def sync(interp, b):
            g["ev"].append(("self.sync", dict(b)))
        ctx.callee_contracts["signac.project.Project.sync"] = sync
        return ctx

    def setup(self, interp, case):
        from pyvc.interp import Obj
        rp = interp.repo
        rp.load("signac.project")
        o = Obj(rp.classes["signac.project.Project"])
        origin, schema, ct = STok("origin"), STok("schema"), STok("copytree")
        g = interp.ctx.ghost
        g["opts"] = {"strategy": STok("strategy"), "doc_sync": STok("doc_sync")}
        sync = {"None": None, "True": True, "options": dict(g["opts"])}[case["sync"]]
        return [o], {"origin": origin, "schema": schema, "sync": sync, "copytree": ct}, {"o": o, "origin": origin, "schema": schema, "ct": ct}

    def post(self, interp, case, pre, outcome):
        ex, g = interp.ex, interp.ctx.ghost
        ev = g["ev"]
        if outcome[0] != "return":
            ex.oblige(self.oname("raises:nothing_of_its_own"), False, note=repr(outcome[1]))
            return
        r = outcome[1]
        if case["sync"] == "None":
            ok = len(ev) == 1 and ev[0][0] == "import_into_project" and ev[0][1].get("origin") is pre["origin"] and ev[0][1].get("project") is pre["o"] \
                and ev[0][1].get("schema") is pre["schema"] and ev[0][1].get("copytree") is pre["ct"] and isinstance(r, dict) and len(r) == 1
            ex.oblige(self.oname("ensures:a_plain_import_goes_into_this_project_with_schema_and_copytree,_its_pairs_returned_as_a_mapping"), z3.BoolVal(bool(ok)), note=repr(ev)[:300])
            return
        names = [e[0] for e in ev]
        ok = names == ["enter-temporary-project", "tmp.import_from", "self.sync", "exit-temporary-project"] and r is g["tmp_ret"]
        ex.oblige(self.oname("ensures:with_sync_the_data_is_imported_into_a_temporary_project_which_is_then_synchronised_into_this_one"), z3.BoolVal(bool(ok)), note=repr(names))
        if ok:
            a, k = ev[1][1], ev[1][2]
            ex.oblige(self.oname("ensures:the_temporary_import_uses_the_origin_and_the_schema"), z3.BoolVal(not a and k.get("origin") is pre["origin"] and k.get("schema") is pre["schema"] and set(k) <= {"origin", "schema"}))
            b = ev[2][1]
            flat = {x: y for x, y in b.items() if x not in ("self", "kwargs")}
            flat.update(b.get("kwargs") or {})
            want = dict(g["opts"]) if case["sync"] == "options" else {}
            ex.oblige(self.oname("ensures:synchronised_from_the_temporary_project_into_this_one_with_the_given_options"),
                      z3.BoolVal(b.get("self") is pre["o"] and flat.get("other") is g["tmp"] and all(flat.get(x) is y for x, y in want.items())
                                 and all(v is None for x, v in flat.items() if x not in want and x != "other")), note=repr(flat)[:300])


# ============================================================================= the three exporters: what their copy function does with (src, dst)


class SWalkZ(Sym):
    def sym_iter(self, ex):
        def at(interp, i):
            interp.ctx.ghost["z_step"] = i
            return (STokI("root", i), "dirnames", SFilesZ(i))
        return CutSeq(z3.Int("zw_n"), at, label="walk")


class SFilesZ(Sym):
    def __init__(self, i):
        self.i = i

    def sym_iter(self, ex):
        def at(interp, j):
            interp.ctx.ghost["z_writes"] = []
            return STokI("file", self.i, j)
        return CutSeq(z3.Int(ex.fresh_name("zf_n")), at, label="filenames")


class STokI(Sym):
    """an indexed token (root of walk step i, file j of step i): identity is the index tuple"""

    def __init__(self, kind, *idx):
        self.kind, self.idx = kind, idx

    def same(self, other):
        return isinstance(other, STokI) and self.kind == other.kind and len(self.idx) == len(other.idx) and all(z3.eq(z3.simplify(a), z3.simplify(b)) for a, b in zip(self.idx, other.idx))


class Exporters(Contract):
    properties = ("C16",)

    def __init__(self, which):
        self.which = which
        self.target = f"{IE}.export_to_{which}"
        super().__init__()

    def cases(self):
        return [{"copytree": c} for c in ((False, True) if self.which == "directory" else (False,))]

    def make_ctx(self, case):
        import shutil
        ctx = super().make_ctx(case)
        g = ctx.ghost
        g["ev"] = []
        ctx.callee_contracts[f"{IE}._export_jobs"] = lambda interp, b: (g.__setitem__("ej", dict(b)), STok("pairs"))[1]
        ctx.callee_contracts["signac._utility._mkdir_p"] = lambda interp, b: g["ev"].append(("mkdir_p", b["path"]))
        ctx.externals[os.path.join] = lambda interp, *a: ("join",) + a
        ctx.externals[os.path.normpath] = lambda interp, a: ("normpath", a)
        ctx.externals[os.path.dirname] = lambda interp, a: ("dirname", a)
        ctx.externals[os.path.relpath] = lambda interp, a, b: ("relpath", a, b)
        ctx.externals[os.walk] = lambda interp, p: (g.__setitem__("walked", p), SWalkZ())[1]
        ctx.externals[shutil.copytree] = lambda interp, *a, **k: g["ev"].append(("shutil.copytree", a, k))
        return ctx

    def loops(self, case):
        def body_files(interp, fr, w):
            g = interp.ctx.ghost
            wr = g.get("z_writes", [])
            root, fn, src, dst = interp.lookup(fr, "root"), interp.lookup(fr, "fn"), g["SRC"], g["DST"]
            ok = len(wr) == 1 and not wr[0][0] and set(wr[0][1]) == {"filename", "arcname"}
            if ok:
                f, a = wr[0][1]["filename"], wr[0][1]["arcname"]
                ok = (isinstance(f, tuple) and f[0] == "join" and len(f) == 3 and f[1] is root and f[2] is fn and isinstance(a, tuple) and a[0] == "join" and len(a) == 4 and a[1] is dst
                      and a[2] == ("relpath", root, src) and a[3] is fn)
            interp.ex.oblige(self.oname("loop[files]:every_file_below_the_source_is_written_once_under_destination/relative_directory/name"), z3.BoolVal(bool(ok)), note=repr(wr)[:300])
        T = lambda interp, fr, i, seq: z3.BoolVal(True)
        return {"walk": LoopSpec("walk", T, scratch=("root", "dirnames", "filenames", "fn"), heap_frame=lambda interp, fr, w: None),
                "filenames": LoopSpec("files", T, scratch=("fn",), heap_frame=body_files)}

    def setup(self, interp, case):
        g = interp.ctx.ghost
        jobs, path = STok("jobs"), STok("path")
        g["SRC"], g["DST"] = STok("src"), STok("dst")
        if self.which == "directory":
            ct = NativeStub(lambda s_, d_: g["ev"].append(("user-copytree", s_, d_)), "copytree") if case["copytree"] else None
            return [], {"jobs": jobs, "target": "TARGET", "path": path, "copytree": ct}, {"jobs": jobs, "path": path, "ct": ct}
        if self.which == "tarfile":
            class STar(Sym):
                def sym_getattr(self, ex, name):
                    if name == "add":
                        return g.setdefault("tar_add", NativeStub(lambda *a, **k: g["ev"].append(("tar.add", a, k)), "tarfile.add"))
                    raise Unsupported(f"tarfile.{name}")
            return [], {"jobs": jobs, "tarfile": STar(), "path": path}, {"jobs": jobs, "path": path}

        class SZip(Sym):
            def sym_getattr(self, ex, name):
                if name == "write":
                    return NativeStub(lambda *a, **k: g.setdefault("z_writes", []).append((a, k)), "zipfile.write")
                raise Unsupported(f"zipfile.{name}")
        return [], {"jobs": jobs, "zipfile": SZip(), "path": path}, {"jobs": jobs, "path": path}

    def post(self, interp, case, pre, outcome):
        ex, g = interp.ex, interp.ctx.ghost
        ej = g.get("ej")
        ok = outcome[0] == "return" and isinstance(outcome[1], STok) and ej is not None and ej.get("jobs") is pre["jobs"] and ej.get("path") is pre["path"]
        ex.oblige(self.oname("ensures:the_jobs_and_the_path_specification_go_to_the_export_driver_and_its_result_is_returned"), z3.BoolVal(bool(ok)), note=repr(ej)[:200])
        if not ok:
            return
        ct = ej.get("copytree")
        src, dst = g["SRC"], g["DST"]
        if self.which == "tarfile":
            ex.oblige(self.oname("ensures:a_job_directory_is_added_to_the_archive_under_its_destination_name"), z3.BoolVal(ct is g.get("tar_add")), note=repr(ct))
            return
        g["ev"].clear()
        interp.call(ct, [src, dst], {})
        if self.which == "directory":
            full = ("join", "TARGET", dst)
            want_copy = ("user-copytree", src, full) if pre["ct"] is not None else ("shutil.copytree", (src, full), {})
            ok2 = g["ev"] == [("mkdir_p", ("dirname", ("normpath", full))), want_copy]
            ex.oblige(self.oname("ensures:the_parent_of_target/destination_is_created,_then_the_job_directory_is_copied_there_with_the_chosen_copytree"), z3.BoolVal(bool(ok2)), note=repr(g["ev"])[:300])
        else:
            ex.oblige(self.oname("ensures:the_archive_is_filled_by_walking_the_job_directory"), z3.BoolVal(g.get("walked") is src), note=repr(g.get("walked")))


# ============================================================================= _analyze_tarfile_for_import: which archive directories become jobs
# Archive directory names are abstract (sort AD) with a parent function (os.path.dirname).  Assumptions (stated): the member list is
# ancestor-closed up to the archive root (tarfile.add / signac's own export list every directory), and sorted() puts a directory after
# its parent (a proper prefix sorts first).  Specification, by recursion over the directory tree:
#   COVERED(d)  :=  d is a listed directory and (COVERED(parent d) or the schema identifies d)      -- d lies in or is an identified job directory
#   MAPPED(d)   :=  d is listed, not COVERED(parent d), and the schema identifies d                -- d is imported as a job

AD = z3.DeclareSort("ArchDir")
ADPARENT = z3.Function("ADPARENT", AD, AD)
LISTED = z3.Function("LISTED", AD, z3.BoolSort())
SCHEMA_ID = z3.Function("SCHEMA_ID", AD, z3.BoolSort())
COVERED = z3.Function("COVERED", AD, z3.BoolSort())
AD_AT = z3.Function("AD_AT", z3.IntSort(), AD)
AD_N = z3.Int("ad_n")
JOBOF = z3.Function("JOBOF", AD, JobK)
JOB_EXISTS = z3.Function("JOB_EXISTS", JobK, z3.BoolSort())


def MAPPED(d):
    return z3.And(LISTED(d), z3.Not(COVERED(ADPARENT(d))), SCHEMA_ID(d))


class SAD(Sym):
    def __init__(self, e):
        self.e = e

    def sym_hashable(self):
        return True


class SADSorted(Sym):
    def sym_iter(self, ex):
        def at(interp, i):
            interp.ctx.ghost["ad_i"] = i
            return SAD(AD_AT(i))
        return CutSeq(AD_N, at, label="names")


class SADMap(Sym):
    """mappings: archive directory -> job"""

    def __init__(self, dom):
        self.dom = dom

    def sym_setitem(self, ex, k, v):
        if not (isinstance(k, SAD) and isinstance(v, SJobK) and z3.eq(v.e, JOBOF(k.e))):
            raise Unsupported("mappings[name] = something other than the job opened for that name")
        cur = self.dom
        self.dom = lambda x, cur=cur, e=k.e: z3.Or(cur(x), x == e)

    def sym_getattr(self, ex, name):
        if name == "values":
            return NativeStub(lambda: SADValues(self), "dict.values")
        if name == "items":
            return NativeStub(lambda: SADItems(self), "dict.items")
        raise Unsupported(f"mappings.{name}")

    def sym_len(self, ex):
        return SADCount(self.dom, distinct_jobs=False)


class SADValues(Sym):
    def __init__(self, m):
        self.m = m


class SADItems(Sym):
    def __init__(self, m):
        self.m = m

    def sym_iter(self, ex):
        m = self.m
        n = z3.Int(ex.fresh_name("n_mapped"))
        en = z3.Function(ex.fresh_name("MAPPED_AT"), z3.IntSort(), AD)
        a, b = z3.Ints("ma mb")
        x = z3.Const("mx", AD)
        ex.assume(n >= 0)
        ex.assume(z3.ForAll([x], m.dom(x) == z3.Exists([a], z3.And(0 <= a, a < n, en(a) == x))))
        ex.assume(z3.ForAll([a, b], z3.Implies(z3.And(0 <= a, a < b, b < n), en(a) != en(b))))

        def at(interp, i):
            interp.ctx.ghost["map_i"] = en(i)
            interp.ctx.ghost["yielded"] = []
            return (SAD(en(i)), SJobK(JOBOF(en(i))))
        return CutSeq(n, at, label="mapped")


class SADCount(Sym):
    """len(mappings) / len(set(mappings.values())): compared with each other only -- equal iff JOBOF is injective on the mapped directories"""

    def __init__(self, dom, distinct_jobs):
        self.dom, self.distinct_jobs = dom, distinct_jobs

    def sym_eq(self, ex, other):
        if isinstance(other, SADCount) and self.distinct_jobs != other.distinct_jobs:
            ex.assumptions_used.add("len(set(values)) == len(mapping) iff no two keys have equal values (Lean: values_card_eq_iff_injective in /verif/lean/Meta.lean, re-checked in the thorough tier)")
            a, b = z3.Consts("ca cb", AD)
            return SBool(z3.ForAll([a, b], z3.Implies(z3.And(self.dom(a), self.dom(b), a != b), JOBOF(a) != JOBOF(b))))
        raise Unsupported("comparison of this count")


class TarCtx(Ctx):
    def __init__(self, contract, case):
        super().__init__(contract, case)
        self.externals[set] = self.x_set
        self.externals[os.path.dirname] = lambda interp, p: SAD(ADPARENT(p.e)) if isinstance(p, SAD) else (_ for _ in ()).throw(Unsupported("dirname shape"))
        self.externals[os.path.exists] = lambda interp, p: SBool(JOB_EXISTS(p[1])) if isinstance(p, tuple) and p[0] == "job-path" else (_ for _ in ()).throw(Unsupported("exists shape"))
        self.externals[os.path.isdir] = lambda interp, p: True
        self.externals[os.path.join] = lambda interp, *a: ("join",) + a

    def x_set(self, interp, *a):
        if not a:
            return SymSet.empty(AD)
        if isinstance(a[0], SADValues):
            return SADValSet(a[0].m)
        raise Unsupported("set(x)")

    def comprehension(self, interp, node, frame):
        import ast
        if ast.unparse(node) == "[member.name for member in tarfile.getmembers() if member.isdir()]":
            return SADDirs()
        return NotImplemented

    def builtin_hook(self, interp, f, args, kw):
        if f is sorted and len(args) == 1 and isinstance(args[0], SADDirs) and not kw:
            return SADSorted()
        return super().builtin_hook(interp, f, args, kw)

    def instantiate(self, interp, rc, args, kw):
        if rc.name == "_CopyFromTarFileExecutor":
            return ("executor", args, kw)
        return NotImplemented


class SADDirs(Sym):
    pass


class SADValSet(Sym):
    def __init__(self, m):
        self.m = m

    def sym_len(self, ex):
        return SADCount(self.m.dom, distinct_jobs=True)


class AnalyzeTarfile(Contract):
    target = f"{IE}._analyze_tarfile_for_import"
    properties = ("C16",)
    ctx_class = TarCtx
    assumptions = ("the archive lists every directory between a listed directory and the archive root (tarfile.add does); sorted() puts a directory after its parent",)

    def make_ctx(self, case):
        ctx = super().make_ctx(case)
        g = ctx.ghost
        g["yielded"], g["extracted"] = [], []
        g["schema"] = NativeStub(lambda name: self.schema(ctx, name), "schema function")
        ctx.callee_contracts[f"{IE}._with_consistency_check"] = lambda interp, b: g["schema"]
        ctx.callee_contracts[f"{IE}._make_path_based_schema_function"] = lambda interp, b: STok("path-schema")
        return ctx

    def schema(self, ctx, name):
        ex = ctx.ghost["interp"].ex
        if not isinstance(name, SAD):
            raise Unsupported("schema function argument")
        ctx.ghost.setdefault("schema_calls", []).append(name.e)
        if ex.decide(SCHEMA_ID(name.e), "schema:identifies-a-job"):
            return ("statepoint-of", name.e)
        return None

    def loops(self, case):
        x = z3.Const("tx", AD)
        j = z3.Int("tj")

        def state(interp, fr):
            sk, mp = interp.lookup(fr, "skip_subdirs"), interp.lookup(fr, "mappings")
            if not isinstance(sk, SymSet):
                raise Unsupported("skip_subdirs is not a set of archive directories")
            dom = (lambda y: z3.BoolVal(False)) if (isinstance(mp, dict) and not mp) else mp.dom if isinstance(mp, SADMap) else None
            if dom is None:
                raise Unsupported("mappings is not the mapping under construction")
            return sk, dom

        def inv(interp, fr, i, seq):
            sk, dom = state(interp, fr)
            done = lambda y: z3.Exists([j], z3.And(0 <= j, j < i, AD_AT(j) == y))
            return z3.ForAll([x], z3.And(sk.member(x) == z3.And(done(x), COVERED(x)), dom(x) == z3.And(done(x), MAPPED(x)),
                                         z3.Implies(z3.And(done(x), MAPPED(x)), z3.Not(JOB_EXISTS(JOBOF(x))))))

        def hv_sk(interp, fr, tag):
            return SymSet.fresh(interp.ex, tag, AD)

        def hv_mp(interp, fr, tag):
            f = z3.Function(interp.ex.fresh_name("mapdom"), AD, z3.BoolSort())
            return SADMap(lambda y, f=f: f(y))

        def body_mapped(interp, fr, w):
            ex, g = interp.ex, interp.ctx.ghost
            d, ys = g["map_i"], g["yielded"]
            ok = len(ys) == 1 and isinstance(ys[0], tuple) and len(ys[0]) == 2 and ys[0][0] == ("join", "TMPDIR", ys[0][0][2]) and isinstance(ys[0][0][2], SAD) \
                and isinstance(ys[0][1], tuple) and ys[0][1][0] == "executor" and len(ys[0][1][1]) == 2 and ys[0][1][1][0] == ys[0][0] and isinstance(ys[0][1][1][1], SJobK)
            ex.oblige(self.oname("loop[mapped]:every_mapped_directory_is_reported_once_with_an_executor_for_its_extracted_copy_and_its_job"),
                      z3.And(z3.BoolVal(bool(ok)), ys[0][0][2].e == d, ys[0][1][1][1].e == JOBOF(d)) if ok else z3.BoolVal(False), note=repr(ys)[:300])
            ex.oblige(self.oname("loop[mapped]:the_archive_is_extracted_into_the_temporary_directory_before_anything_is_reported"), z3.BoolVal(len(g["extracted"]) == 1))
        return {"names": LoopSpec("directories", inv, havoc={"skip_subdirs": hv_sk, "mappings": hv_mp}, scratch=("name", "sp", "job"), heap_frame=lambda interp, fr, w: None),
                "mapped": LoopSpec("mapped", lambda interp, fr, i, seq: z3.BoolVal(True), scratch=("path", "job", "src", "copy_executor"), heap_frame=body_mapped)}

    def setup(self, interp, case):
        ex, g = interp.ex, interp.ctx.ghost
        g["interp"] = interp
        a, b = z3.Ints("sa sb")
        x = z3.Const("sx", AD)
        ex.assume(z3.And(AD_N >= 0,
                         z3.ForAll([x], LISTED(x) == z3.Exists([a], z3.And(0 <= a, a < AD_N, AD_AT(a) == x))),
                         z3.ForAll([a, b], z3.Implies(z3.And(0 <= a, a < b, b < AD_N), AD_AT(a) != AD_AT(b))),
                         # sorted(): a listed parent comes before its child
                         z3.ForAll([a], z3.Implies(z3.And(0 <= a, a < AD_N, LISTED(ADPARENT(AD_AT(a)))), z3.Exists([b], z3.And(0 <= b, b < a, AD_AT(b) == ADPARENT(AD_AT(a)))))),
                         # the specification's recursion
                         z3.ForAll([x], COVERED(x) == z3.And(LISTED(x), z3.Or(COVERED(ADPARENT(x)), SCHEMA_ID(x))))))

        class STarF(Sym):
            def sym_getattr(self, ex_, name):
                if name == "extractall":
                    return NativeStub(lambda *a_, **k: g["extracted"].append((a_, k)), "tarfile.extractall")
                if name == "getmembers":
                    return NativeStub(lambda: "members", "tarfile.getmembers")
                raise Unsupported(f"tarfile.{name}")

        class SProj2(Sym):
            def sym_getattr(self, ex_, name):
                if name == "open_job":
                    return NativeStub(lambda sp: SJobAtK(sp[1]) if isinstance(sp, tuple) and sp[0] == "statepoint-of" else (_ for _ in ()).throw(Unsupported("open_job argument")), "project.open_job")
                raise Unsupported(f"project.{name}")
        return [STarF(), SProj2(), g["schema"], "TMPDIR"], {}, {}

    def yield_hook(self, interp, case, pre):
        return lambda v: interp.ctx.ghost["yielded"].append(v)

    def post(self, interp, case, pre, outcome):
        from signac.errors import DestinationExistsError, StatepointParsingError
        ex, g = interp.ex, interp.ctx.ghost
        a, b = z3.Consts("pa pb", AD)
        clash = z3.Exists([a, b], z3.And(MAPPED(a), MAPPED(b), a != b, JOBOF(a) == JOBOF(b)))
        occupied = z3.Exists([a], z3.And(MAPPED(a), JOB_EXISTS(JOBOF(a))))
        if outcome[0] == "return":
            ex.oblige(self.oname("ensures:completes_only_if_no_two_imported_directories_map_to_one_job_and_no_target_job_exists"), z3.And(z3.Not(clash), z3.Not(occupied)))
        else:
            e = outcome[1]
            if isinstance(e, DestinationExistsError):
                ex.oblige(self.oname("raises:DestinationExistsError_only_for_an_existing_target_job_and_before_anything_is_extracted"), z3.And(occupied, z3.BoolVal(not g["extracted"])))
            elif isinstance(e, StatepointParsingError):
                ex.oblige(self.oname("raises:StatepointParsingError_only_if_two_directories_map_to_one_job_and_before_anything_is_extracted"), z3.And(clash, z3.BoolVal(not g["extracted"])))
            else:
                ex.oblige(self.oname("raises:nothing_else"), False, note=repr(e))


class SJobAtK(SJobK):
    """the job opened for the state point of archive directory d"""

    def __init__(self, d):
        super().__init__(JOBOF(d))
        self.dir = d

    def sym_getattr(self, ex, name):
        if name == "path":
            return ("job-path", self.e)
        raise Unsupported(f"job.{name}")


# ============================================================================= _analyze_zipfile_for_import
# Same abstraction (sort AD for the directory names of the archive).  A directory is skipped when an already identified one is the
# archive root (""), the directory itself, or a proper ancestor (name.startswith(skip + "/")): ANCS(s, x).  Specification:
#   MZ(x) := x is a listed directory, the schema identifies it, and no other identified directory s has ANCS(s, x)
# (well-founded because ancestors sort first; stated as the recursion equation below).

ISROOT = z3.Function("ISROOT", AD, z3.BoolSort())
PANC = z3.Function("PANC", AD, AD, z3.BoolSort())          # x.startswith(s + "/")
MZ = z3.Function("MZ", AD, z3.BoolSort())
STRPFX = z3.Function("STRPFX", AD, AD, z3.BoolSort())      # x.startswith(s) as strings
MEMBER_UNDER = z3.Function("MEMBER_UNDER", AD, z3.IntSort(), z3.BoolSort())   # archive member k lies under directory d (d == "" or name.startswith(d + "/"))


def ANCS(s_, x):
    return z3.Or(ISROOT(s_), x == s_, PANC(s_, x))


class SADz(SAD):
    def sym_eq(self, ex, other):
        if other == "":
            return SBool(ISROOT(self.e))
        if isinstance(other, SAD):
            return SBool(self.e == other.e)
        raise Unsupported("directory name == this value")

    def sym_binop(self, ex, op, other, reflected=False):
        if op == "Add" and other == "/" and not reflected:
            return ("with-slash", self.e)
        raise Unsupported("directory name arithmetic")

    def sym_getattr(self, ex, name):
        if name == "startswith":
            def sw(p):
                if isinstance(p, tuple) and p[0] == "with-slash":
                    return SBool(PANC(p[1], self.e))
                if isinstance(p, SAD):
                    # a plain string prefix: implied by "is a proper ancestor", but 'a/1' is also a string prefix of its sibling 'a/10'
                    ex.assume(z3.Implies(z3.Or(PANC(p.e, self.e), p.e == self.e, ISROOT(p.e)), STRPFX(p.e, self.e)))
                    return SBool(STRPFX(p.e, self.e))
                raise Unsupported("startswith argument")
            return NativeStub(sw, "str.startswith")
        raise Unsupported(f"str.{name} on a directory name")


class SADSortedZ(Sym):
    def sym_iter(self, ex):
        def at(interp, i):
            interp.ctx.ghost["ad_i"] = i
            return SADz(AD_AT(i))
        return CutSeq(AD_N, at, label="names")


class SSkipSet(SymSet):
    def sym_iter(self, ex):
        n = z3.Int(ex.fresh_name("n_skip"))
        en = z3.Function(ex.fresh_name("SKIP_AT"), z3.IntSort(), AD)
        a, b = z3.Ints("ka kb")
        x = z3.Const("kx", AD)
        ex.assume(n >= 0)
        ex.assume(z3.ForAll([x], self.member(x) == z3.Exists([a], z3.And(0 <= a, a < n, en(a) == x))))
        ex.assume(z3.ForAll([a, b], z3.Implies(z3.And(0 <= a, a < b, b < n), en(a) != en(b))))
        cs = CutSeq(n, lambda interp, i: SADz(en(i)), label="skips")
        cs.en = en
        return cs


class ZipCtx(TarCtx):
    def x_set(self, interp, *a):
        if not a:
            return SSkipSet(lambda x: z3.BoolVal(False), AD)
        return super().x_set(interp, *a)

    def comprehension(self, interp, node, frame):
        import ast
        src = ast.unparse(node)
        if src == "{os.path.dirname(name) for name in names}":
            return SADDirs()
        if src == "[name for name in names if src == '' or name.startswith(src + '/')]":
            d = interp.lookup(frame, "src")
            if isinstance(d, SAD):
                return ("members-under", d.e)
        return NotImplemented

    def builtin_hook(self, interp, f, args, kw):
        if f is sorted and len(args) == 1 and isinstance(args[0], SADDirs) and not kw:
            return SADSortedZ()
        return Ctx.builtin_hook(self, interp, f, args, kw)

    def instantiate(self, interp, rc, args, kw):
        if rc.name == "_CopyFromZipFileExecutor":
            return ("executor", args, kw)
        return NotImplemented


class AnalyzeZipfile(AnalyzeTarfile):
    target = f"{IE}._analyze_zipfile_for_import"
    ctx_class = ZipCtx
    assumptions = ("sorted() puts a directory name after every name that is its proper prefix followed by '/' and after the empty name",)

    def loops(self, case):
        x = z3.Const("zx", AD)
        j = z3.Int("zj")

        def state(interp, fr):
            sk, mp = interp.lookup(fr, "skip_subdirs"), interp.lookup(fr, "mappings")
            if not isinstance(sk, SymSet):
                raise Unsupported("skip_subdirs is not a set of archive directories")
            dom = (lambda y: z3.BoolVal(False)) if (isinstance(mp, dict) and not mp) else mp.dom if isinstance(mp, SADMap) else None
            if dom is None:
                raise Unsupported("mappings is not the mapping under construction")
            return sk, dom

        def inv(interp, fr, i, seq):
            sk, dom = state(interp, fr)
            done = lambda y: z3.Exists([j], z3.And(0 <= j, j < i, AD_AT(j) == y))
            return z3.ForAll([x], z3.And(sk.member(x) == z3.And(done(x), MZ(x)), dom(x) == z3.And(done(x), MZ(x)),
                                         z3.Implies(z3.And(done(x), MZ(x)), z3.Not(JOB_EXISTS(JOBOF(x))))))

        def inv_skips(interp, fr, k, seq):
            name = interp.lookup(fr, "name")
            cont = interp.lookup(fr, "cont")
            return z3.And(z3.BoolVal(cont is False), z3.ForAll([j], z3.Implies(z3.And(0 <= j, j < k), z3.Not(ANCS(seq.en(j), name.e)))))

        def hv_sk(interp, fr, tag):
            f = z3.Function(interp.ex.fresh_name("skipset"), AD, z3.BoolSort())
            return SSkipSet(lambda y, f=f: f(y), AD)

        def hv_mp(interp, fr, tag):
            f = z3.Function(interp.ex.fresh_name("mapdom"), AD, z3.BoolSort())
            return SADMap(lambda y, f=f: f(y))

        def body_mapped(interp, fr, w):
            ex, g = interp.ex, interp.ctx.ghost
            d, ys = g["map_i"], g["yielded"]
            ok = len(ys) == 1 and isinstance(ys[0], tuple) and len(ys[0]) == 2 and isinstance(ys[0][0], SAD) and isinstance(ys[0][1], tuple) and ys[0][1][0] == "executor" \
                and len(ys[0][1][1]) == 4 and ys[0][1][1][0] is g["zipfile"] and isinstance(ys[0][1][1][1], SAD) and isinstance(ys[0][1][1][2], SJobK) and isinstance(ys[0][1][1][3], tuple)
            ex.oblige(self.oname("loop[mapped]:every_mapped_directory_is_reported_once_with_an_executor_for_the_archive_members_below_it_and_its_job"),
                      z3.And(z3.BoolVal(bool(ok)), ys[0][0].e == d, ys[0][1][1][1].e == d, ys[0][1][1][2].e == JOBOF(d), ys[0][1][1][3][1] == d) if ok else z3.BoolVal(False), note=repr(ys)[:300])
        return {"names": LoopSpec("directories", inv, havoc={"skip_subdirs": hv_sk, "mappings": hv_mp}, scratch=("name", "sp", "job", "cont", "skip"), heap_frame=lambda interp, fr, w: None),
                "skips": LoopSpec("skips", inv_skips, havoc={"cont": lambda interp, fr, tag: False}, scratch=("skip",), on_break="continue"),
                "mapped": LoopSpec("mapped", lambda interp, fr, i, seq: z3.BoolVal(True), scratch=("src", "job", "_names", "copy_executor"), heap_frame=body_mapped)}

    def setup(self, interp, case):
        ex, g = interp.ex, interp.ctx.ghost
        g["interp"] = interp
        a, b = z3.Ints("sa sb")
        x, y = z3.Consts("sx sy", AD)
        ex.assume(z3.And(AD_N >= 0,
                         z3.ForAll([x], LISTED(x) == z3.Exists([a], z3.And(0 <= a, a < AD_N, AD_AT(a) == x))),
                         z3.ForAll([a, b], z3.Implies(z3.And(0 <= a, a < b, b < AD_N), AD_AT(a) != AD_AT(b))),
                         # sorted(): a listed name that is the root / a proper ancestor of another listed name comes first
                         z3.ForAll([a, b], z3.Implies(z3.And(0 <= a, a < AD_N, 0 <= b, b < AD_N, a != b, ANCS(AD_AT(b), AD_AT(a))), b < a)),
                         # the specification's recursion
                         z3.ForAll([x], MZ(x) == z3.And(LISTED(x), SCHEMA_ID(x), z3.Not(z3.Exists([y], z3.And(MZ(y), y != x, ANCS(y, x))))))))

        class SZipF(Sym):
            def sym_getattr(self, ex_, name):
                if name == "namelist":
                    return NativeStub(lambda: "names", "zipfile.namelist")
                raise Unsupported(f"zipfile.{name}")

        class SProj2(Sym):
            def sym_getattr(self, ex_, name):
                if name == "open_job":
                    return NativeStub(lambda sp: SJobAtK(sp[1]) if isinstance(sp, tuple) and sp[0] == "statepoint-of" else (_ for _ in ()).throw(Unsupported("open_job argument")), "project.open_job")
                raise Unsupported(f"project.{name}")
        g["zipfile"] = SZipF()
        return [g["zipfile"], SProj2(), g["schema"]], {}, {}

    def post(self, interp, case, pre, outcome):
        from signac.errors import DestinationExistsError, StatepointParsingError
        ex, g = interp.ex, interp.ctx.ghost
        a, b = z3.Consts("pa pb", AD)
        clash = z3.Exists([a, b], z3.And(MZ(a), MZ(b), a != b, JOBOF(a) == JOBOF(b)))
        occupied = z3.Exists([a], z3.And(MZ(a), JOB_EXISTS(JOBOF(a))))
        if outcome[0] == "return":
            ex.oblige(self.oname("ensures:completes_only_if_no_two_imported_directories_map_to_one_job_and_no_target_job_exists"), z3.And(z3.Not(clash), z3.Not(occupied)))
        else:
            e = outcome[1]
            if isinstance(e, DestinationExistsError):
                ex.oblige(self.oname("raises:DestinationExistsError_only_for_an_existing_target_job"), occupied)
            elif isinstance(e, StatepointParsingError):
                ex.oblige(self.oname("raises:StatepointParsingError_only_if_two_directories_map_to_one_job"), clash)
            else:
                ex.oblige(self.oname("raises:nothing_else"), False, note=repr(e))


CONTRACTS += [PrepareImport(), ImportIntoProject(), ProjectImportFrom(), Exporters("directory"), Exporters("tarfile"), Exporters("zipfile"), AnalyzeTarfile(), AnalyzeZipfile()]
