"""Sidecar contract for signac.job.calc_id (C01): call-site conformance to the canonical-JSON / MD5 contracts."""
import hashlib
import json

import z3

from pyvc.core import NativeStub, Sym, Unsupported
from pyvc.theory_fs import SPv
from pyvc.verify import Contract, Ctx

Text = z3.DeclareSort("Text")
Bytes = z3.DeclareSort("Bytes")
CANON = z3.Function("CANON", SPv, Text)        # canonical JSON text: keys sorted at every level, default separators, ASCII-escaped
NONCANON = z3.Function("NONCANON", SPv, z3.IntSort(), Text)   # json.dumps with any other option set (an unknown, different text)
UTF8 = z3.Function("UTF8", Text, Bytes)
MD5HEX = z3.Function("MD5HEX", Bytes, Text)    # 32 lowercase hex characters of the MD5 digest


class SVal(Sym):
    def __init__(self, e):
        self.e = e


class SText(Sym):
    def __init__(self, e):
        self.e = e

    def sym_getattr(self, ex, name):
        if name == "encode":
            def encode(encoding="utf-8", errors="strict"):
                if encoding not in ("utf-8", "utf8") or errors != "strict":
                    raise Unsupported("non-default encode()")
                return SBytes(UTF8(self.e))
            return NativeStub(encode, "str.encode")
        raise Unsupported(f"str.{name}")


class SBytes(Sym):
    def __init__(self, e):
        self.e = e


class SMd5(Sym):
    def __init__(self):
        self.data = None
        self.updates = 0

    def sym_getattr(self, ex, name):
        if name == "update":
            def update(b):
                if not isinstance(b, SBytes):
                    raise Unsupported("md5.update argument")
                self.updates += 1
                self.data = b.e
            return NativeStub(update, "md5.update")
        if name == "hexdigest":
            def hexdigest():
                if self.updates != 1:
                    raise Unsupported("md5 object updated %d times" % self.updates)
                return SText(MD5HEX(self.data))
            return NativeStub(hexdigest, "md5.hexdigest")
        raise Unsupported(f"md5.{name}")


class CalcCtx(Ctx):
    def __init__(self, contract, case):
        super().__init__(contract, case)
        self.externals[json.dumps] = self.x_dumps
        self.externals[hashlib.md5] = lambda interp, *a, **k: SMd5() if not a and not k else (_ for _ in ()).throw(Unsupported("md5 with initial data"))

    def x_dumps(self, interp, v, **kw):
        from synced_collections.utils import SyncedCollectionJSONEncoder
        if not isinstance(v, SVal):
            raise Unsupported("json.dumps argument")
        interp.ex.assumptions_used.add("json.dumps contract keyed by its options: exactly cls=SyncedCollectionJSONEncoder, sort_keys=True and every other option at its default "
                                       "yields CANON(value), a function of the unordered JSON value (validated bounded); MD5 collision freedom")
        if set(kw) == {"cls", "sort_keys"} and kw["cls"] is SyncedCollectionJSONEncoder and kw["sort_keys"] is True:
            return SText(CANON(v.e))
        sig = abs(hash(tuple(sorted((k, repr(getattr(x, "__name__", x))) for k, x in kw.items())))) % 1000 + 1
        return SText(NONCANON(v.e, z3.IntVal(sig)))


class CalcId(Contract):
    target = "signac.job.calc_id"
    properties = ("C01",)
    ctx_class = CalcCtx

    def setup(self, interp, case):
        v = z3.Const("statepoint", SPv)
        return [SVal(v)], {}, {"v": v}

    def post(self, interp, case, pre, outcome):
        ex = interp.ex
        if outcome[0] != "return":
            ex.oblige(self.oname("raises:nothing_for_a_JSON_encodable_state_point"), False, note=repr(outcome[1]))
            return
        r = outcome[1]
        ex.oblige(self.oname("ensures:id_is_md5_hex_of_utf8_of_canonical_json"),
                  r.e == MD5HEX(UTF8(CANON(pre["v"]))) if isinstance(r, SText) else z3.BoolVal(False))


CONTRACTS = [CalcId()]
