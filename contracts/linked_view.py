"""Sidecar contract for signac.linked_view._update_view (C17): every obsolete path is removed, every changed link re-created,
every new link created -- and nothing happens only if all three work lists are empty."""
import itertools
import os

import z3

from pyvc.core import CutSeq, NativeStub, OpaqueStr, SBool, SInt, Sym, Unsupported
from pyvc.interp import LoopSpec
from pyvc.verify import Contract, Ctx

LV = "signac.linked_view"
VP = z3.DeclareSort("VP")      # a relative path inside the view


class SPathList(Sym):
    def __init__(self, tag):
        self.tag = tag
        self.n = z3.Int(f"n_{tag}")
        self.at = z3.Function(f"{tag}_at", z3.IntSort(), VP)

    def sym_len(self, ex):
        return SInt(self.n)

    def sym_truth(self, ex):
        return self.n > 0

    def sym_iter(self, ex):
        return CutSeq(self.n, lambda interp, i: SVP(self.at(i), self.tag), label=self.tag)

    def has(self, x):
        i = z3.Int(f"hi_{self.tag}")
        return z3.Exists([i], z3.And(0 <= i, i < self.n, self.at(i) == x))


class SChain(Sym):
    def __init__(self, parts):
        self.parts = parts

    def sym_iter(self, ex):
        a, b = self.parts
        n = z3.Int("n_chain")
        ex.assume(n == a.n + b.n)
        return CutSeq(n, lambda interp, i: SVP(z3.If(i < a.n, a.at(i), b.at(i - a.n)), "chain"), label="chain(new, to_update)")


class SVP(Sym):
    def __init__(self, e, origin):
        self.e, self.origin = e, origin

    def sym_isinstance(self, ex, cls):
        return cls in (str, object)


class SJoined(Sym):
    def __init__(self, vp):
        self.vp = vp


class ViewCtx(Ctx):
    def __init__(self, contract, case):
        super().__init__(contract, case)
        g = self.ghost
        self.externals[os.path.join] = lambda interp, a, b: SJoined(b.e) if (a == "PREFIX" and isinstance(b, SVP)) else (_ for _ in ()).throw(Unsupported("join shape"))
        self.externals[os.unlink] = lambda interp, p: g["ops"].append(("unlink", p.vp))
        self.externals[os.rmdir] = lambda interp, p: g["ops"].append(("rmdir", p.vp))
        self.externals[os.path.relpath] = lambda interp, *a: OpaqueStr()
        self.externals[os.path.split] = lambda interp, p: (OpaqueStr(), OpaqueStr())

    def native_override(self, interp, f, args, kw):
        if f is itertools.chain and len(args) == 2 and all(isinstance(a, SPathList) for a in args):
            return SChain(args)
        return NotImplemented


class SLinks(Sym):
    def sym_getitem(self, ex, k):
        return OpaqueStr()


class UpdateView(Contract):
    target = f"{LV}._update_view"
    properties = ("C17",)
    ctx_class = ViewCtx

    def loops(self, case):
        def mk(kind, listname):
            def inv(interp, fr, i, seq):
                g = interp.ctx.ghost
                x = z3.Const("ix", VP)
                f = g["done"][kind]
                L = g[listname]
                if kind == "made":
                    a, b = g["new"], g["to_update"]
                    at = lambda k: z3.If(k < a.n, a.at(k), b.at(k - a.n))
                else:
                    at = L.at
                j = z3.Int("ij")
                if kind == "made":
                    # processed prefix of chain(new, to_update): the first min(i, n_new) new paths, then the first i - n_new changed ones
                    a, b = g["new"], g["to_update"]
                    return z3.ForAll([x], f(x) == z3.Or(z3.Exists([j], z3.And(0 <= j, j < i, j < a.n, a.at(j) == x)),
                                                        z3.Exists([j], z3.And(0 <= j, j < i - a.n, b.at(j) == x))))
                return z3.ForAll([x], f(x) == z3.Exists([j], z3.And(0 <= j, j < i, at(j) == x)))

            def hv(interp, fr, tag):
                g = interp.ctx.ghost
                fn = z3.Function(interp.ex.fresh_name(kind), VP, z3.BoolSort())
                g["done"][kind] = lambda x: fn(x)
                g["ops"].clear()

            def body(interp, fr, writes):
                g = interp.ctx.ghost
                want = {"removed": ("unlink", "rmdir"), "unlinked": ("unlink",), "made": ("link",)}[kind]
                ops = [o for o in g["ops"] if o[0] in want]
                interp.ex.oblige(self.oname(f"loop[{kind}]:one_{'/'.join(want)}_per_path"), z3.BoolVal(len(ops) >= 1 and len(g["ops"]) == len(ops)), note=str([o[0] for o in g["ops"]]))
                for o in ops[:1]:
                    cur = g["done"][kind]
                    g["done"][kind] = lambda x, cur=cur, e=o[1]: z3.Or(cur(x), x == e)
                g["ops"].clear()
            return LoopSpec(kind, inv, havoc={"$g": hv}, scratch=("path", "p", "dst", "src"), heap_frame=body)
        return {"obsolete": mk("removed", "obsolete"), "to_update": mk("unlinked", "to_update"), "chain(new, to_update)": mk("made", "new")}

    def setup(self, interp, case):
        ex, g = interp.ex, interp.ctx.ghost
        ob, tu, nw = SPathList("obsolete"), SPathList("to_update"), SPathList("new")
        for L in (ob, tu, nw):
            ex.assume(L.n >= 0)
        g.update({"obsolete": ob, "to_update": tu, "new": nw, "ops": [],
                  "done": {"removed": lambda x: z3.BoolVal(False), "unlinked": lambda x: z3.BoolVal(False), "made": lambda x: z3.BoolVal(False)}})
        interp.ctx.callee_contracts[f"{LV}._analyze_view"] = lambda interp_, b: (ob, tu, nw)

        def make_link(interp_, b):
            d = b["dst"]
            g["ops"].append(("link", d.vp if isinstance(d, SJoined) else None))
        interp.ctx.callee_contracts[f"{LV}._make_link"] = make_link
        return ["PREFIX", SLinks()], {}, {}

    def post(self, interp, case, pre, outcome):
        ex, g = interp.ex, interp.ctx.ghost
        if outcome[0] == "raise":
            ex.oblige(self.oname("raises:nothing"), False, note=repr(outcome[1]))
            return
        ob, tu, nw = g["obsolete"], g["to_update"], g["new"]
        x = z3.Const("px", VP)
        d = g["done"]
        ex.oblige(self.oname("ensures:every_obsolete_path_is_removed"), z3.ForAll([x], z3.Implies(ob.has(x), d["removed"](x))))
        ex.oblige(self.oname("ensures:every_changed_link_is_unlinked_and_recreated"), z3.ForAll([x], z3.Implies(tu.has(x), z3.And(d["unlinked"](x), d["made"](x)))))
        ex.oblige(self.oname("ensures:every_new_link_is_created"), z3.ForAll([x], z3.Implies(nw.has(x), d["made"](x))))
        ex.oblige(self.oname("ensures:nothing_else_is_touched"),
                  z3.ForAll([x], z3.And(z3.Implies(d["removed"](x), ob.has(x)), z3.Implies(d["unlinked"](x), tu.has(x)), z3.Implies(d["made"](x), z3.Or(nw.has(x), tu.has(x))))))


CONTRACTS = [UpdateView()]


# ============================================================================= _make_link


class MakeLink(Contract):
    """_make_link(src, dst): directories leading to the link exist first; an existing link is accepted only if it already leads to the same place"""
    target = f"{LV}._make_link"
    properties = ("C17",)

    def cases(self):
        return [{"err": None}, {"err": "EEXIST", "same": True}, {"err": "EEXIST", "same": False}, {"err": "EACCES", "same": True}, {"err": "ENOENT", "same": True}]

    def make_ctx(self, case):
        import errno
        from pyvc.core import RaiseSignal
        ctx = super().make_ctx(case)
        g = ctx.ghost
        g["ev"] = []
        ctx.callee_contracts["signac._utility._mkdir_p"] = lambda interp, b: g["ev"].append(("mkdir_p", b["path"]))
        ctx.externals[os.path.dirname] = lambda interp, p: ("dirname", p)

        def symlink(interp, src, dst, **kw):
            g["ev"].append(("symlink", src, dst, kw))
            if case["err"]:
                raise RaiseSignal(OSError(getattr(errno, case["err"]), "injected"))
        ctx.externals[os.symlink] = symlink
        ctx.externals[os.path.realpath] = lambda interp, p: ("real", "X") if case.get("same") else ("real", p)
        return ctx

    def setup(self, interp, case):
        return ["SRC", "DST"], {}, {}

    def post(self, interp, case, pre, outcome):
        ex, ev = interp.ex, interp.ctx.ghost["ev"]
        order = ev[:2] == [("mkdir_p", ("dirname", "DST")), ("symlink", "SRC", "DST", {"target_is_directory": True})] and len(ev) == 2
        ex.oblige(self.oname("ensures:the_directory_of_the_link_is_created_then_one_directory_symlink_src_to_dst"), z3.BoolVal(order), note=repr(ev))
        if case["err"] is None:
            ex.oblige(self.oname("ensures:returns_normally_when_the_link_was_created"), z3.BoolVal(outcome[0] == "return"))
        elif case["err"] == "EEXIST" and case["same"]:
            ex.oblige(self.oname("ensures:an_existing_link_that_already_leads_to_the_same_place_is_accepted"), z3.BoolVal(outcome[0] == "return"))
        else:
            ex.oblige(self.oname("raises:every_other_failure_(incl._an_existing_entry_leading_elsewhere)_is_raised"),
                      z3.BoolVal(outcome[0] == "raise" and isinstance(outcome[1], OSError)), note=repr(outcome))


CONTRACTS += [MakeLink()]


# ============================================================================= _find_all_links: which directories of an existing view hold a leaf

WD = z3.DeclareSort("WalkDir")
WDIR = z3.Function("WDIR", z3.IntSort(), WD)
LEAF_IN_DIRS = z3.Function("LEAF_IN_DIRS", z3.IntSort(), z3.BoolSort())      # the leaf name is among dirnames of the i-th walk step
LEAF_IN_FILES = z3.Function("LEAF_IN_FILES", z3.IntSort(), z3.BoolSort())    # ... among filenames (a dangling link is reported as a file)
NAME_AT = z3.Function("NAME_AT", z3.IntSort(), z3.IntSort(), z3.IntSort(), z3.IntSort())   # (step, which list, position) -> name code
NLEN = z3.Function("NLEN", z3.IntSort(), z3.IntSort(), z3.IntSort())
LEAF = z3.IntVal(0)           # name code of the leaf


class SWName(Sym):
    def __init__(self, e):
        self.e = e

    def sym_eq(self, ex, other):
        if other == "THE-LEAF":
            return SBool(self.e == LEAF)
        raise Unsupported("name comparison")


class SNames(Sym):
    def __init__(self, step, which):
        self.step, self.which = step, which

    def sym_contains(self, ex, x):
        if x == "THE-LEAF":
            k = z3.Int("ck")
            return SBool(z3.Exists([k], z3.And(0 <= k, k < NLEN(self.step, z3.IntVal(self.which)), NAME_AT(self.step, z3.IntVal(self.which), k) == LEAF)))
        raise Unsupported("membership of this name")

    def sym_iter(self, ex):
        step, which = self.step, self.which
        cs = CutSeq(NLEN(step, z3.IntVal(which)), lambda interp, j: SWName(NAME_AT(step, z3.IntVal(which), j)), label=("dirnames", "filenames")[which])
        cs.step, cs.which = step, which
        return cs


class SWalkDirTok(Sym):
    def __init__(self, e):
        self.e = e


class SWalk2(Sym):
    def __init__(self, ex):
        self.n = z3.Int("n_walk_steps")
        ex.assume(self.n >= 0)

    def sym_iter(self, ex):
        def at(interp, i):
            g = interp.ctx.ghost
            g["step"], g["yielded"] = i, []
            return (SWalkDirTok(WDIR(i)), SNames(i, 0), SNames(i, 1))
        return CutSeq(self.n, at, label="walk")


class FindAllLinks(Contract):
    target = f"{LV}._find_all_links"
    properties = ("C17",)
    assumptions = ("os.walk reports a symbolic link to a directory among dirnames and a dangling link among filenames (so both lists must be searched for the leaf)",)

    def make_ctx(self, case):
        ctx = super().make_ctx(case)
        ctx.externals[os.walk] = lambda interp, root, *a, **k: SWalk2(interp.ex)
        ctx.externals[os.path.relpath] = lambda interp, p, root: ("relpath-to-root", p.e) if isinstance(p, SWalkDirTok) and root == "ROOT" else (_ for _ in ()).throw(Unsupported("relpath shape"))
        return ctx

    def loops(self, case):
        def inv_names(interp, fr, j, seq):
            # no name before position j is the leaf (otherwise the loop had been left)
            k = z3.Int("nk")
            return z3.ForAll([k], z3.Implies(z3.And(0 <= k, k < j), NAME_AT(seq.step, z3.IntVal(seq.which), k) != LEAF))

        def body(interp, fr, writes):
            ex, g = interp.ex, interp.ctx.ghost
            i, ys = g["step"], g["yielded"]
            k = z3.Int("bk")
            has = lambda which: z3.Exists([k], z3.And(0 <= k, k < NLEN(i, z3.IntVal(which)), NAME_AT(i, z3.IntVal(which), k) == LEAF))
            ex.oblige(self.oname("body:a_directory_is_reported_iff_the_leaf_is_among_its_sub-directories_or_its_files_(dangling_links_count)"),
                      z3.BoolVal(len(ys) >= 1) == z3.Or(has(0), has(1)), note=f"{len(ys)} yielded")
            ex.oblige(self.oname("body:what_is_reported_is_this_directory_relative_to_the_view_root"), z3.BoolVal(all(isinstance(y, tuple) and y[0] == "relpath-to-root" for y in ys))
                      if not ys else z3.And(*[y[1] == WDIR(i) if isinstance(y, tuple) and y[0] == "relpath-to-root" else z3.BoolVal(False) for y in ys]))
        names = LoopSpec("names", inv_names, scratch=("dirname", "filename"), on_break="continue")
        return {"walk": LoopSpec("walk", lambda interp, fr, i, seq: z3.BoolVal(True), scratch=("dirpath", "dirnames", "filenames", "dirname", "filename"), heap_frame=body),
                "dirnames": names, "filenames": names}

    def setup(self, interp, case):
        ex = interp.ex
        a, b = z3.Ints("la lb")
        ex.assume(z3.ForAll([a, b], NLEN(a, b) >= 0))
        interp.ctx.ghost["yielded"] = []
        return ["ROOT", "THE-LEAF"], {}, {}

    def yield_hook(self, interp, case, pre):
        return lambda v: interp.ctx.ghost["yielded"].append(v)

    def post(self, interp, case, pre, outcome):
        if outcome[0] != "return":
            interp.ex.oblige(self.oname("raises:nothing"), False, note=repr(outcome[1]))


CONTRACTS += [FindAllLinks()]


# ============================================================================= create_linked_view: separator check, link map, order of the calls


class SItem(Sym):
    """a state point key or value; for strings, whether it contains the path separator is symbolic"""

    def __init__(self, name, is_str):
        self.name, self.is_str = name, is_str
        self.hassep = z3.Bool(f"{name}_contains_sep")

    def sym_isinstance(self, ex, cls):
        return (cls is str and self.is_str) or cls is object

    def sym_contains(self, ex, x):
        if x == os.sep and self.is_str:
            return SBool(self.hassep)
        raise Unsupported("`in` on this item")

    def sym_truth(self, ex):
        return True          # only items that contain the separator are ever tested for truth: non-empty strings

    def sym_hashable(self):
        return True

    def __repr__(self):
        return self.name


class SJobV(Sym):
    def __init__(self, name):
        self.name = name
        self.path = f"<{name}.path>"

    def sym_getattr(self, ex, n):
        if n == "statepoint":
            return NativeStub(lambda: ("statepoint-of", self), "job.statepoint")
        if n == "path":
            return self.path
        raise Unsupported(f"job.{n}")

    def __repr__(self):
        return self.name


class CreateLinkedView(Contract):
    """bound stated: 0, 1 or 2 selected jobs with up to two (key, value) leaves each -- the function treats jobs and leaves uniformly
    (comprehensions and one loop); which of the keys / string values contain the path separator is symbolic"""
    target = f"{LV}.create_linked_view"
    properties = ("C17",)

    class ctx_class(Ctx):
        def make_set(self, ex, items):
            return OpaqueStr()          # only ever formatted into the error message

        def str_join(self, interp, sep, parts):
            return OpaqueStr()          # the error message

    def cases(self):
        return [{"njobs": n, "ids": ids, "prefix": pf} for n in (0, 1, 2) for ids in (False, True) for pf in (None, "custom")]

    def make_ctx(self, case):
        ctx = super().make_ctx(case)
        g = ctx.ghost
        g["ev"] = []
        jobs = [SJobV(f"job{i}") for i in range(case["njobs"])]
        g["jobs"] = jobs
        leaves = {}
        for i, j in enumerate(jobs):
            leaves[j.name] = [(SItem(f"key{i}a", True), SItem(f"val{i}a", True)), (SItem(f"key{i}b", True), SItem(f"val{i}b", False))]
        g["leaves"] = leaves

        def flatten(interp, b):
            d = b["d"]
            if isinstance(d, tuple) and d[0] == "statepoint-of":
                return list(leaves[d[1].name])
            raise Unsupported("_nested_dicts_to_dotted_keys argument")
        ctx.callee_contracts["signac._utility._nested_dicts_to_dotted_keys"] = flatten
        pf = NativeStub(lambda job: f"<path-of-{job.name}>", "path function")

        def mpf(interp, b):
            g["ev"].append(("make-path-function", list(b["jobs"]), b["path"]))
            return pf
        ctx.callee_contracts["signac.import_export._make_path_function"] = mpf
        ctx.callee_contracts["signac.import_export._check_directory_structure_validity"] = lambda interp, b: g["ev"].append(("validity-check", list(b["paths"])))
        ctx.callee_contracts[f"{LV}._update_view"] = lambda interp, b: g["ev"].append(("update-view", b["prefix"], dict(b["links"])))
        ctx.externals[os.path.join] = lambda interp, *a: "/".join(a)
        return ctx

    def setup(self, interp, case):
        g = interp.ctx.ghost
        jobs = g["jobs"]

        class SProjV(Sym):
            def sym_iter(self, ex):
                g["ev"].append(("iterate-project",))
                return list(jobs)

            def sym_getattr(self, ex, n):
                if n == "open_job":
                    def oj(*a, **k):
                        g["ev"].append(("open_job", a, k))
                        return jobs[int(k["id"][-1])]
                    return NativeStub(oj, "project.open_job")
                if n == "find_jobs":
                    return NativeStub(lambda *a, **k: (g["ev"].append(("find_jobs",)), [SJobV("unselected")])[1], "project.find_jobs")
                raise Unsupported(f"project.{n}")
        ids = [f"id{i}" for i in range(case["njobs"])] if case["ids"] else None
        path = ("path-spec",)
        kw = {"job_ids": ids, "path": path}
        if case["prefix"]:
            kw["prefix"] = "PREFIX"
        return [SProjV()], kw, {"path": path}

    def post(self, interp, case, pre, outcome):
        ex, g = interp.ex, interp.ctx.ghost
        jobs, ev = g["jobs"], g["ev"]
        items = [it for j in jobs for kv in g["leaves"][j.name] for it in kv]
        bad = z3.Or(*[it.hassep for it in items if it.is_str]) if items else z3.BoolVal(False)
        calls = [e for e in ev if e[0] in ("make-path-function", "validity-check", "update-view")]
        if outcome[0] == "raise":
            ex.oblige(self.oname("raises:RuntimeError_iff_a_(nested)_key_or_string_value_contains_the_path_separator,_before_anything_is_built"),
                      z3.And(z3.BoolVal(isinstance(outcome[1], RuntimeError) and not calls), bad), note=repr(outcome[1])[:200])
            return
        ex.oblige(self.oname("ensures:accepted_only_if_no_key_and_no_string_value_contains_the_path_separator"), z3.Not(bad))
        want_links = {f"<path-of-{j.name}>/job": j.path for j in jobs}
        r = outcome[1]
        ex.oblige(self.oname("ensures:returns_one_link_per_selected_job:_<path_of_the_job>/job_->_the_job_directory_(an_empty_selection_links_nothing)"),
                  z3.BoolVal(isinstance(r, dict) and r == want_links), note=repr(r)[:300])
        prefix = "PREFIX" if case["prefix"] else "view"
        ok = len(calls) == 3 and calls[0][0] == "make-path-function" and len(calls[0][1]) == len(jobs) and all(a is b for a, b in zip(calls[0][1], jobs)) and calls[0][2] is pre["path"] \
            and calls[1] == ("validity-check", list(want_links)) and calls[2] == ("update-view", prefix, want_links)
        ex.oblige(self.oname("ensures:the_path_function_is_made_for_the_selected_jobs,_the_link_paths_are_checked_for_leaf/node_conflicts,_then_the_view_is_updated_under_the_prefix"),
                  z3.BoolVal(bool(ok)), note=repr(calls)[:400])
        sel_ok = (("iterate-project",) in ev) != case["ids"] and len([e for e in ev if e[0] == "open_job"]) == (case["njobs"] if case["ids"] else 0) and ("find_jobs",) not in ev
        ex.oblige(self.oname("ensures:the_selection_is_the_given_ids_or_the_whole_project,_never_anything_else"), z3.BoolVal(bool(sel_ok)), note=repr([e[0] for e in ev]))


CONTRACTS += [CreateLinkedView()]
