"""Sidecar contract for signac.linked_view._update_view (C17): every obsolete path is removed, every changed link re-created,
every new link created -- and nothing happens only if all three work lists are empty."""
import itertools
import os

import z3

from pyvc.core import CutSeq, NativeStub, OpaqueStr, SBool, SInt, Sym, Unsupported
from pyvc.interp import LoopSpec
from pyvc.verify import Contract, Ctx

LV = "signac.linked_view"
VP = z3.DeclareSort("VP")      # a relative path inside the view


class SPathList(Sym):
    def __init__(self, tag):
        self.tag = tag
        self.n = z3.Int(f"n_{tag}")
        self.at = z3.Function(f"{tag}_at", z3.IntSort(), VP)

    def sym_len(self, ex):
        return SInt(self.n)

    def sym_truth(self, ex):
        return self.n > 0

    def sym_iter(self, ex):
        return CutSeq(self.n, lambda interp, i: SVP(self.at(i), self.tag), label=self.tag)

    def has(self, x):
        i = z3.Int(f"hi_{self.tag}")
        return z3.Exists([i], z3.And(0 <= i, i < self.n, self.at(i) == x))


class SChain(Sym):
    def __init__(self, parts):
        self.parts = parts

    def sym_iter(self, ex):
        a, b = self.parts
        n = z3.Int("n_chain")
        ex.assume(n == a.n + b.n)
        return CutSeq(n, lambda interp, i: SVP(z3.If(i < a.n, a.at(i), b.at(i - a.n)), "chain"), label="chain(new, to_update)")


class SVP(Sym):
    def __init__(self, e, origin):
        self.e, self.origin = e, origin

    def sym_isinstance(self, ex, cls):
        return cls in (str, object)


class SJoined(Sym):
    def __init__(self, vp):
        self.vp = vp


class ViewCtx(Ctx):
    def __init__(self, contract, case):
        super().__init__(contract, case)
        g = self.ghost
        self.externals[os.path.join] = lambda interp, a, b: SJoined(b.e) if (a == "PREFIX" and isinstance(b, SVP)) else (_ for _ in ()).throw(Unsupported("join shape"))
        self.externals[os.unlink] = lambda interp, p: g["ops"].append(("unlink", p.vp))
        self.externals[os.rmdir] = lambda interp, p: g["ops"].append(("rmdir", p.vp))
        self.externals[os.path.relpath] = lambda interp, *a: OpaqueStr()
        self.externals[os.path.split] = lambda interp, p: (OpaqueStr(), OpaqueStr())

    def native_override(self, interp, f, args, kw):
        if f is itertools.chain and len(args) == 2 and all(isinstance(a, SPathList) for a in args):
            return SChain(args)
        return NotImplemented


class SLinks(Sym):
    def sym_getitem(self, ex, k):
        return OpaqueStr()


class UpdateView(Contract):
    target = f"{LV}._update_view"
    properties = ("C17",)
    ctx_class = ViewCtx

    def loops(self, case):
        def mk(kind, listname):
            def inv(interp, fr, i, seq):
                g = interp.ctx.ghost
                x = z3.Const("ix", VP)
                f = g["done"][kind]
                L = g[listname]
                if kind == "made":
                    a, b = g["new"], g["to_update"]
                    at = lambda k: z3.If(k < a.n, a.at(k), b.at(k - a.n))
                else:
                    at = L.at
                j = z3.Int("ij")
                if kind == "made":
                    # processed prefix of chain(new, to_update): the first min(i, n_new) new paths, then the first i - n_new changed ones
                    a, b = g["new"], g["to_update"]
                    return z3.ForAll([x], f(x) == z3.Or(z3.Exists([j], z3.And(0 <= j, j < i, j < a.n, a.at(j) == x)),
                                                        z3.Exists([j], z3.And(0 <= j, j < i - a.n, b.at(j) == x))))
                return z3.ForAll([x], f(x) == z3.Exists([j], z3.And(0 <= j, j < i, at(j) == x)))

            def hv(interp, fr, tag):
                g = interp.ctx.ghost
                fn = z3.Function(interp.ex.fresh_name(kind), VP, z3.BoolSort())
                g["done"][kind] = lambda x: fn(x)
                g["ops"].clear()

            def body(interp, fr, writes):
                g = interp.ctx.ghost
                want = {"removed": ("unlink", "rmdir"), "unlinked": ("unlink",), "made": ("link",)}[kind]
                ops = [o for o in g["ops"] if o[0] in want]
                interp.ex.oblige(self.oname(f"loop[{kind}]:one_{'/'.join(want)}_per_path"), z3.BoolVal(len(ops) >= 1 and len(g["ops"]) == len(ops)), note=str([o[0] for o in g["ops"]]))
                for o in ops[:1]:
                    cur = g["done"][kind]
                    g["done"][kind] = lambda x, cur=cur, e=o[1]: z3.Or(cur(x), x == e)
                g["ops"].clear()
            return LoopSpec(kind, inv, havoc={"$g": hv}, scratch=("path", "p", "dst", "src"), heap_frame=body)
        return {"obsolete": mk("removed", "obsolete"), "to_update": mk("unlinked", "to_update"), "chain(new, to_update)": mk("made", "new")}

    def setup(self, interp, case):
        ex, g = interp.ex, interp.ctx.ghost
        ob, tu, nw = SPathList("obsolete"), SPathList("to_update"), SPathList("new")
        for L in (ob, tu, nw):
            ex.assume(L.n >= 0)
        g.update({"obsolete": ob, "to_update": tu, "new": nw, "ops": [],
                  "done": {"removed": lambda x: z3.BoolVal(False), "unlinked": lambda x: z3.BoolVal(False), "made": lambda x: z3.BoolVal(False)}})
        interp.ctx.callee_contracts[f"{LV}._analyze_view"] = lambda interp_, b: (ob, tu, nw)

        def make_link(interp_, b):
            d = b["dst"]
            g["ops"].append(("link", d.vp if isinstance(d, SJoined) else None))
        interp.ctx.callee_contracts[f"{LV}._make_link"] = make_link
        return ["PREFIX", SLinks()], {}, {}

    def post(self, interp, case, pre, outcome):
        ex, g = interp.ex, interp.ctx.ghost
        if outcome[0] == "raise":
            ex.oblige(self.oname("raises:nothing"), False, note=repr(outcome[1]))
            return
        ob, tu, nw = g["obsolete"], g["to_update"], g["new"]
        x = z3.Const("px", VP)
        d = g["done"]
        ex.oblige(self.oname("ensures:every_obsolete_path_is_removed"), z3.ForAll([x], z3.Implies(ob.has(x), d["removed"](x))))
        ex.oblige(self.oname("ensures:every_changed_link_is_unlinked_and_recreated"), z3.ForAll([x], z3.Implies(tu.has(x), z3.And(d["unlinked"](x), d["made"](x)))))
        ex.oblige(self.oname("ensures:every_new_link_is_created"), z3.ForAll([x], z3.Implies(nw.has(x), d["made"](x))))
        ex.oblige(self.oname("ensures:nothing_else_is_touched"),
                  z3.ForAll([x], z3.And(z3.Implies(d["removed"](x), ob.has(x)), z3.Implies(d["unlinked"](x), tu.has(x)), z3.Implies(d["made"](x), z3.Or(nw.has(x), tu.has(x))))))


CONTRACTS = [UpdateView()]


# ============================================================================= _make_link


class MakeLink(Contract):
    """_make_link(src, dst): directories leading to the link exist first; an existing link is accepted only if it already leads to the same place"""
    target = f"{LV}._make_link"
    properties = ("C17",)

    def cases(self):
        return [{"err": None}, {"err": "EEXIST", "same": True}, {"err": "EEXIST", "same": False}, {"err": "EACCES", "same": True}, {"err": "ENOENT", "same": True}]

    def make_ctx(self, case):
        import errno
        from pyvc.core import RaiseSignal
        ctx = super().make_ctx(case)
        g = ctx.ghost
        g["ev"] = []
        ctx.callee_contracts["signac._utility._mkdir_p"] = lambda interp, b: g["ev"].append(("mkdir_p", b["path"]))
        ctx.externals[os.path.dirname] = lambda interp, p: ("dirname", p)

        def symlink(interp, src, dst, **kw):
            g["ev"].append(("symlink", src, dst, kw))
            if case["err"]:
                raise RaiseSignal(OSError(getattr(errno, case["err"]), "injected"))
        ctx.externals[os.symlink] = symlink
        ctx.externals[os.path.realpath] = lambda interp, p: ("real", "X") if case.get("same") else ("real", p)
        return ctx

    def setup(self, interp, case):
        return ["SRC", "DST"], {}, {}

    def post(self, interp, case, pre, outcome):
        ex, ev = interp.ex, interp.ctx.ghost["ev"]
        order = ev[:2] == [("mkdir_p", ("dirname", "DST")), ("symlink", "SRC", "DST", {"target_is_directory": True})] and len(ev) == 2
        ex.oblige(self.oname("ensures:the_directory_of_the_link_is_created_then_one_directory_symlink_src_to_dst"), z3.BoolVal(order), note=repr(ev))
        if case["err"] is None:
            ex.oblige(self.oname("ensures:returns_normally_when_the_link_was_created"), z3.BoolVal(outcome[0] == "return"))
        elif case["err"] == "EEXIST" and case["same"]:
            ex.oblige(self.oname("ensures:an_existing_link_that_already_leads_to_the_same_place_is_accepted"), z3.BoolVal(outcome[0] == "return"))
        else:
            ex.oblige(self.oname("raises:every_other_failure_(incl._an_existing_entry_leading_elsewhere)_is_raised"),
                      z3.BoolVal(outcome[0] == "raise" and isinstance(outcome[1], OSError)), note=repr(outcome))


CONTRACTS += [MakeLink()]
