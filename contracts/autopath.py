"""Sidecar contract for signac.import_export._make_schema_based_path_function (C16, C17): the automatic, schema based job path.

What is proved, for any number of jobs, keys, values per key and jobs per value: the token list built for a job consists of exactly
one (key, str(value)) pair for every reported (non-constant), non-excluded state point key under which the job is listed, the value
being the one the job is listed under, in the order in which the keys are reported; a job listed under no such key has no entry and the
returned function raises RuntimeError for it; the returned function joins exactly that list (with `sep` or the OS separator) and
normalises it.

Abstraction of the callee results (assumed here, established by the contracts of _build_job_statepoint_index and
_SearchIndexer.build_index): dict(_build_job_statepoint_index(...)) has NK entries; entry k maps ML(k) values to groups of job ids;
group (k, m) is a set enumerated by GID(k, m, g), g < GL(k, m) (GPOS is the inverse enumeration); one job is listed under at most one
value of a key (MOF).  Keys, values and ids are opaque: only their identity (k, m, id) is tracked.

Ghost view of the local `paths`: HAS[id], LEN[id] (number of pairs), TK[id][q] / TM[id][q] (key / value index of the q-th pair) and the
Skolem witness POS[id][k] (where the pair of key k sits), all z3 arrays updated by setdefault / extend / item assignment."""
import os

import z3

from pyvc.core import CutSeq, NativeStub, PathEnd, RaiseSignal, SBool, SInt, Sym, Unsupported
from pyvc.interp import LoopSpec
from pyvc.theory_j import Id, SId
from pyvc.verify import Contract, Ctx

IE = "signac.import_export"
I = z3.IntSort()

NJ = z3.Int("ap_n_jobs")
NK = z3.Int("ap_n_keys")
ML = z3.Function("AP_ML", I, I)
GL = z3.Function("AP_GL", I, I, I)
GID = z3.Function("AP_GID", I, I, I, Id)
GPOS = z3.Function("AP_GPOS", I, I, Id, I)
MOF = z3.Function("AP_MOF", I, Id, I)
EXCL = z3.Function("AP_EXCL", I, z3.BoolSort())


def ING(k, m, x):
    return z3.And(0 <= GPOS(k, m, x), GPOS(k, m, x) < GL(k, m), GID(k, m, GPOS(k, m, x)) == x)


class SJobs(Sym):
    def sym_len(self, ex):
        return SInt(NJ)


class SJobG(Sym):
    """a job of the sequence (generic) or the job handed to the returned function"""

    def __init__(self, e):
        self.e = e

    def sym_getattr(self, ex, name):
        if name == "id":
            return SId(self.e)
        if name == "sp":
            return NativeStub(lambda: ("statepoint-of", self), "job.sp()")
        raise Unsupported(f"job.{name}")


class SIdxInput(Sym):
    def __init__(self, ok, note):
        self.ok, self.note = ok, note


class SIndexTok(Sym):
    def __init__(self, src):
        self.src = src


class SReported(Sym):
    pass


class SIndexDict(Sym):
    def sym_getattr(self, ex, name):
        if name == "items":
            return NativeStub(lambda: SKeyItems(), "dict.items")
        raise Unsupported(f"statepoint_index.{name}")


class SKeyItems(Sym):
    def sym_iter(self, ex):
        def at(interp, k):
            interp.ctx.ghost["K"] = k
            return (SKeyTok(k), SValues(k))
        return CutSeq(NK, at, label="keys")


class SKeyTok(Sym):
    """a reported key (dotted)"""

    def __init__(self, k, out=False):
        self.k, self.out = k, out

    def sym_hashable(self):
        return True

    def sym_getattr(self, ex, name):
        if name == "replace":
            return NativeStub(lambda old, new, *a: SKeyTok(self.k, out=(old, new)), "str.replace")
        raise Unsupported(f"str.{name} on a key")


class SValues(Sym):
    def __init__(self, k):
        self.k = k

    def sym_getattr(self, ex, name):
        if name == "items":
            return NativeStub(lambda: SValItems(self.k), "dict.items")
        raise Unsupported(f"values.{name}")


class SValItems(Sym):
    def __init__(self, k):
        self.k = k

    def sym_iter(self, ex):
        def at(interp, m):
            interp.ctx.ghost["M"] = m
            return (SVal(self.k, m), SGroup(self.k, m))
        return CutSeq(ML(self.k), at, label="values")


class SVal(Sym):
    def __init__(self, k, m, s=False):
        self.k, self.m, self.s = k, m, s

    def sym_hashable(self):
        return True

    def sym_str(self, ex):
        return SVal(self.k, self.m, s=True)


class SGroup(Sym):
    def __init__(self, k, m):
        self.k, self.m = k, m

    def sym_iter(self, ex):
        def at(interp, g):
            interp.ctx.ghost["G"] = g
            return SId(GID(self.k, self.m, g))
        return CutSeq(GL(self.k, self.m), at, label="group")

    def sym_len(self, ex):
        return SInt(GL(self.k, self.m))


class SExcl(Sym):
    """a non-empty exclude_keys sequence"""

    def __init__(self, ctx):
        self.ctx = ctx

    def sym_truth(self, ex):
        return True

    def sym_contains(self, ex, x):
        k = self.ctx.key_index(x)
        ex.oblige(self.ctx.contract.oname("body:exclusion_is_tested_on_the_key_with_the_nesting_delimiter_applied"), z3.BoolVal(k is not None), note=repr(x)[:100])
        if k is None:
            raise PathEnd()
        return SBool(EXCL(k))


AI = z3.ArraySort(I, I)


class SPaths(Sym):
    """ghost view of the local dict `paths`: job id -> list of path tokens"""

    def __init__(self, ex, tag=None):
        if tag is None:
            self.has = z3.K(Id, z3.BoolVal(False))
            self.len = z3.K(Id, z3.IntVal(0))
            self.tk = z3.K(Id, z3.K(I, z3.IntVal(-1)))
            self.tm = z3.K(Id, z3.K(I, z3.IntVal(-1)))
            self.pos = z3.K(Id, z3.K(I, z3.IntVal(-1)))
        else:
            self.has = z3.Array(ex.fresh_name("HAS_" + tag), Id, z3.BoolSort())
            self.len = z3.Array(ex.fresh_name("LEN_" + tag), Id, I)
            self.tk = z3.Array(ex.fresh_name("TK_" + tag), Id, AI)
            self.tm = z3.Array(ex.fresh_name("TM_" + tag), Id, AI)
            self.pos = z3.Array(ex.fresh_name("POS_" + tag), Id, AI)

    def sym_getattr(self, ex, name):
        if name == "setdefault":
            def setdefault(key, default=None):
                if not isinstance(key, SId) or default != []:
                    raise Unsupported("paths.setdefault call shape")
                x = key.e
                self.len = z3.Store(self.len, x, z3.If(self.has[x], self.len[x], 0))
                self.has = z3.Store(self.has, x, True)
                return SPathList(self, x)
            return NativeStub(setdefault, "dict.setdefault")
        raise Unsupported(f"paths.{name}")

    def sym_getitem(self, ex, key):
        if not isinstance(key, SId):
            raise Unsupported("paths[...] with a key that is not a job id")
        if not ex.decide(self.has[key.e], "paths:has-job"):
            raise RaiseSignal(KeyError(key))
        return SPathList(self, key.e)

    def sym_setitem(self, ex, key, v):
        if not isinstance(key, SId) or not isinstance(v, (list, tuple)):
            raise Unsupported("paths[...] = value shape")
        x = key.e
        self.has = z3.Store(self.has, x, True)
        self.len = z3.Store(self.len, x, 0)
        SPathList(self, x).extend(ex, v)

    def sym_contains(self, ex, key):
        if not isinstance(key, SId):
            raise Unsupported("`in paths` with a key that is not a job id")
        return SBool(self.has[key.e])


class SPathList(Sym):
    def __init__(self, owner, x):
        self.owner, self.x = owner, x

    def extend(self, ex, toks):
        o, x, ctx = self.owner, self.x, ex.ctx_ref
        toks = list(toks) if isinstance(toks, (list, tuple)) else None
        good = toks is not None and len(toks) % 2 == 0
        pairs = []
        if good:
            for a, b in zip(toks[0::2], toks[1::2]):
                k = ctx.key_index(a)
                if k is None or not (isinstance(b, SVal) and b.s and z3.eq(z3.simplify(b.k), z3.simplify(k))):
                    good = False
                    break
                pairs.append((k, b.m))
        ex.oblige(ctx.contract.oname("body:what_is_appended_is_the_key_(nesting_delimiter_applied)_followed_by_str(value)_of_that_key"), z3.BoolVal(good), note=repr(toks)[:200])
        if not good:
            raise PathEnd()         # the obligation above has failed on this path; nothing further can be said
        for k, m in pairs:
            q = o.len[x]
            o.tk = z3.Store(o.tk, x, z3.Store(o.tk[x], q, k))
            o.tm = z3.Store(o.tm, x, z3.Store(o.tm[x], q, m))
            o.pos = z3.Store(o.pos, x, z3.Store(o.pos[x], k, q))
            o.len = z3.Store(o.len, x, q + 1)

    def sym_getattr(self, ex, name):
        if name == "extend":
            return NativeStub(lambda toks: self.extend(ex, toks), "list.extend")
        if name == "append":
            raise Unsupported("paths[id].append")
        raise Unsupported(f"list.{name} on a token list")

    def sym_iter(self, ex):
        return [SSpread(self)]


class SSpread(Sym):
    """*tokens: all tokens of the list, in order (only meaningful as the star-argument of a join)"""

    def __init__(self, lst):
        self.lst = lst


class SJoined(Sym):
    def __init__(self, how, lst, norm=False):
        self.how, self.lst, self.norm = how, lst, norm


class AutoCtx(Ctx):
    def __init__(self, contract, case):
        super().__init__(contract, case)
        self.externals[os.path.join] = self.x_join
        self.externals[os.path.normpath] = self.x_norm

    def key_index(self, tok):
        """k if tok is reported key k with '.' replaced by the nesting delimiter (for the delimiter '.' the key itself)"""
        d = self.case["delimiter"]
        if isinstance(tok, SKeyTok) and (tok.out == (".", d) or (tok.out is False and d == ".")):
            return tok.k
        return None

    def x_join(self, interp, *parts):
        if len(parts) == 1 and isinstance(parts[0], SSpread):
            return SJoined("os.path.join", parts[0].lst)
        raise Unsupported("os.path.join call shape")

    def x_norm(self, interp, p):
        if isinstance(p, SJoined) and not p.norm:
            return SJoined(p.how, p.lst, norm=True)
        raise Unsupported("normpath of this value")

    def str_join(self, interp, sep, parts):
        if isinstance(parts, SPathList) and isinstance(sep, str):
            return SJoined(("sep", sep), parts)
        raise Unsupported("join of this value")

    def comprehension(self, interp, node, frame):
        import ast
        if isinstance(node, ast.GeneratorExp) and len(node.generators) == 1 and not node.generators[0].ifs:
            g = node.generators[0]
            it = interp.ev(g.iter, frame)
            if isinstance(it, SJobs):
                x = z3.Const(interp.ex.fresh_name("gen_job"), Id)
                job = SJobG(x)
                f = interp._comp_frame(frame)
                interp.assign_target(g.target, job, f)
                el = interp.ev(node.elt, f)
                ok = isinstance(el, tuple) and len(el) == 2 and isinstance(el[0], SId) and z3.eq(el[0].e, x) \
                    and isinstance(el[1], dict) and list(el[1]) == ["sp"] and el[1]["sp"] == ("statepoint-of", job)
                return SIdxInput(ok, repr(el)[:150])
        return NotImplemented

    def instantiate(self, interp, rc, args, kw):
        if rc.name == "_SearchIndexer":
            self.ghost["events"].append(("indexer", tuple(args), dict(kw)))
            return SIndexTok(args[0] if len(args) == 1 and not kw else None)
        return NotImplemented

    def dictify(self, interp, v):
        if isinstance(v, SReported):
            return SIndexDict()
        return super().dictify(interp, v)


def stub_build(interp, b):
    interp.ctx.ghost["events"].append(("statepoint-index", b.get("exclude_const"), b.get("index")))
    return SReported()


class MakeSchemaBasedPathFunction(Contract):
    target = f"{IE}._make_schema_based_path_function"
    properties = ("C16", "C17")
    ctx_class = AutoCtx
    callees = {"signac.schema._build_job_statepoint_index": stub_build}
    solver_timeout_ms = 4000
    assumptions = ("dict(_build_job_statepoint_index(exclude_const=True, index)) is a mapping key -> (value -> set of job ids) in which a job is listed under at most one value of a key "
                   "(contracts of _build_job_statepoint_index and _SearchIndexer.build_index); iterating a dict / set visits every entry once",)

    def cases(self):
        return [{"delimiter": d, "exclude": e} for d in (".", "/") for e in ("None", "empty", "some")]

    # ---- the invariant: state of `paths` after all (key, value, job) triples lexicographically before (K, M, G)
    def skip(self, case, k):
        return EXCL(k) if case["exclude"] == "some" else z3.BoolVal(False)

    def handled(self, case, k, m, x, K, M, G):
        return z3.And(0 <= k, k < NK, 0 <= m, m < ML(k), z3.Not(self.skip(case, k)), ING(k, m, x),
                      z3.Or(k < K, z3.And(k == K, z3.Or(m < M, z3.And(m == M, GPOS(k, m, x) < G)))))

    def inv(self, case, P, K, M, G):
        x = z3.Const("ix", Id)
        q, r, k, m = z3.Ints("iq ir ik im")
        tk, tm, ln, pos = P.tk, P.tm, P.len, P.pos
        return z3.And(
            z3.ForAll([x], z3.And(ln[x] >= 0, P.has[x] == (ln[x] > 0))),
            z3.ForAll([x, q], z3.Implies(z3.And(0 <= q, q < ln[x]), self.handled(case, tk[x][q], tm[x][q], x, K, M, G))),
            z3.ForAll([x, q, r], z3.Implies(z3.And(0 <= q, q < r, r < ln[x]), tk[x][q] < tk[x][r])),
            z3.ForAll([x, k, m], z3.Implies(self.handled(case, k, m, x, K, M, G),
                                            z3.And(0 <= pos[x][k], pos[x][k] < ln[x], tk[x][pos[x][k]] == k, tm[x][pos[x][k]] == m))))

    def loops(self, case):
        def P(interp, fr):
            v = interp.lookup(fr, "paths")
            if isinstance(v, dict) and not v:
                return SPaths(interp.ex)
            if isinstance(v, SPaths):
                return v
            raise Unsupported("paths is not the token map")

        def hv(interp, fr, tag):
            return SPaths(interp.ex, tag)
        g = lambda interp: interp.ctx.ghost
        z = z3.IntVal(0)
        scr = ("key_tokens", "values", "key", "value", "group", "path_tokens", "job_id")
        return {"keys": LoopSpec("keys", lambda interp, fr, i, seq: self.inv(case, P(interp, fr), i, z, z), havoc={"paths": hv}, scratch=scr, on_break="continue"),
                "values": LoopSpec("values-of-a-key", lambda interp, fr, i, seq: self.inv(case, P(interp, fr), g(interp)["K"], i, z), havoc={"paths": hv}, scratch=scr[3:], on_break="continue"),
                "group": LoopSpec("jobs-of-a-value", lambda interp, fr, i, seq: self.inv(case, P(interp, fr), g(interp)["K"], g(interp)["M"], i), havoc={"paths": hv}, scratch=("job_id",), on_break="continue")}

    def setup(self, interp, case):
        ex = interp.ex
        ex.ctx_ref = interp.ctx
        interp.ctx.ghost["events"] = []
        k, m, m2, gg = z3.Ints("ak am am2 ag")
        x = z3.Const("ax", Id)
        ex.assume(z3.And(NJ >= 0, NK >= 0, z3.ForAll([k], ML(k) >= 0), z3.ForAll([k, m], GL(k, m) >= 0)))
        # a group is a set: its enumeration is one to one (GPOS is the inverse of GID)
        ex.assume(z3.ForAll([k, m, gg], z3.Implies(z3.And(0 <= gg, gg < GL(k, m)), GPOS(k, m, GID(k, m, gg)) == gg)))
        # a job is listed under at most one value of a key
        ex.assume(z3.ForAll([k, m, x], z3.Implies(z3.And(0 <= m, m < ML(k), ING(k, m, x)), MOF(k, x) == m)))
        jobs = SJobs()
        excl = {"None": None, "empty": [], "some": SExcl(interp.ctx)}[case["exclude"]]
        kw = {"jobs": jobs, "exclude_keys": excl}
        if case["delimiter"] != ".":
            kw["delimiter_nested"] = case["delimiter"]
        return [], kw, {"jobs": jobs}

    def post(self, interp, case, pre, outcome):
        ex, g = interp.ex, interp.ctx.ghost
        if outcome[0] != "return":
            ex.oblige(self.oname("raises:nothing"), False, note=repr(outcome[1]))
            return
        fn = outcome[1]
        ev = g["events"]
        few = not any(e[0] == "statepoint-index" for e in ev)
        if not few:
            idx = [e for e in ev if e[0] == "indexer"]
            ok = len(idx) == 1 and len(idx[0][1]) == 1 and isinstance(idx[0][1][0], SIdxInput) and idx[0][1][0].ok and not idx[0][2]
            ex.oblige(self.oname("ensures:the_index_is_built_from_(job_id,_{'sp':_state_point})_of_every_given_job"), z3.BoolVal(ok), note=repr(idx)[:200])
            si = [e for e in ev if e[0] == "statepoint-index"]
            ok = len(si) == 1 and si[0][1] is True and isinstance(si[0][2], SIndexTok) and isinstance(si[0][2].src, SIdxInput)
            ex.oblige(self.oname("ensures:the_keys_are_the_non-constant_state_point_keys_of_that_index_(exclude_const=True)"), z3.BoolVal(ok), note=repr(si)[:200])
        # the returned function, for an arbitrary job, without and with a separator
        jx = z3.Const("the_job", Id)
        for sep in (None, "_"):
            try:
                r = ("return", interp.call(fn, [SJobG(jx)] + ([sep] if sep else []), {}))
            except RaiseSignal as e:
                r = ("raise", e.exc)
            tag = "with_sep" if sep else "os_separator"
            if few:
                ex.oblige(self.oname("ensures:with_at_most_one_job_the_automatic_path_is_empty"), z3.BoolVal(r == ("return", "")), note=repr(r))
                ex.oblige(self.oname("ensures:the_empty_path_is_used_only_when_there_is_at_most_one_job"), NJ <= 1)
                continue
            Pf = interp.lookup(fn.frame, "paths") if hasattr(fn, "frame") else None
            if isinstance(Pf, dict) and not Pf:
                Pf = SPaths(ex)
            if not isinstance(Pf, SPaths):
                raise Unsupported("the returned function does not close over the token map `paths`")
            k, m, q, r2 = z3.Ints("pk pm pq pr")
            listed = z3.Exists([k, m], z3.And(0 <= k, k < NK, 0 <= m, m < ML(k), z3.Not(self.skip(case, k)), ING(k, m, jx)))
            if r[0] == "raise":
                ex.oblige(self.oname("raises:RuntimeError_only_for_a_job_listed_under_no_reported,_non-excluded_key"),
                          z3.And(z3.BoolVal(isinstance(r[1], RuntimeError)), z3.Not(listed)), note=repr(r[1])[:100])
                continue
            v = r[1]
            want_how = ("sep", sep) if sep else "os.path.join"
            shape = isinstance(v, SJoined) and v.norm and v.how == want_how and v.lst.owner is Pf and z3.eq(v.lst.x, jx)
            ex.oblige(self.oname(f"ensures:the_path_is_the_normalised_join_of_the_job's_own_token_list_[{tag}]"), z3.BoolVal(shape), note=repr(getattr(v, "how", v))[:100])
            ex.oblige(self.oname("ensures:a_path_is_returned_only_for_a_job_listed_under_some_reported,_non-excluded_key"), listed)
            tk, tm, ln, pos = Pf.tk[jx], Pf.tm[jx], Pf.len[jx], Pf.pos[jx]
            ex.oblige(self.oname("ensures:every_(key,_value)_pair_of_the_path_is_a_reported,_non-excluded_key_and_the_value_this_job_is_listed_under"),
                      z3.ForAll([q], z3.Implies(z3.And(0 <= q, q < ln), z3.And(0 <= tk[q], tk[q] < NK, 0 <= tm[q], tm[q] < ML(tk[q]), z3.Not(self.skip(case, tk[q])), ING(tk[q], tm[q], jx)))))
            ex.oblige(self.oname("ensures:every_reported,_non-excluded_key_the_job_is_listed_under_appears_with_that_value"),
                      z3.ForAll([k, m], z3.Implies(z3.And(0 <= k, k < NK, 0 <= m, m < ML(k), z3.Not(self.skip(case, k)), ING(k, m, jx)),
                                                   z3.Exists([q], z3.And(0 <= q, q < ln, tk[q] == k, tm[q] == m)))))
            ex.oblige(self.oname("ensures:keys_appear_once_each_in_the_order_they_are_reported"),
                      z3.ForAll([q, r2], z3.Implies(z3.And(0 <= q, q < r2, r2 < ln), tk[q] < tk[r2])))


CONTRACTS = [MakeSchemaBasedPathFunction()]
