"""Sidecar contracts for the tree helpers of signac/linked_view.py (C17): _build_tree, _color_path, _find_dead_branches.

A node is identified by the path that leads to it: sort TP with the token-prefix functions NTK(p) (number of components) and PFX(p, i)
(the path of the first i components; PFX(p, 0) is the root, PFX(p, NTK p) == p).  The tree is ghost state: EXISTS(x) (a node for path
x has been created) and VALUE(x) (its `value` attribute is truthy), both z3 arrays updated by the node operations."""
import os

import z3

from pyvc.core import CutSeq, NativeStub, SBool, Sym, Unsupported
from pyvc.interp import LoopSpec
from pyvc.verify import Contract, Ctx

LV = "signac.linked_view"

TP = z3.DeclareSort("TreePath")
NTK = z3.Function("NTK", TP, z3.IntSort())
TOK_IS = z3.Function("TOK_IS", TP, z3.IntSort(), z3.StringSort(), z3.BoolSort())      # component i of the path is this text
PFX = z3.Function("PFX", TP, z3.IntSort(), TP)
ROOT = z3.Const("ROOT", TP)
CHILD = z3.Function("CHILD", TP, z3.IntSort(), TP)      # i-th child of a node (enumeration of node.children.values())
NCH = z3.Function("NCH", TP, z3.IntSort())


class TreeState:
    def __init__(self, ex, tag):
        self.exists = z3.Array(ex.fresh_name("EXISTS_" + tag), TP, z3.BoolSort())
        self.value = z3.Array(ex.fresh_name("VALUE_" + tag), TP, z3.BoolSort())


class SNode(Sym):
    def __init__(self, ctx, e, via=None):
        self.ctx, self.e, self.via = ctx, e, via        # via = (path term P, i): this node is PFX(P, i)

    def sym_getattr(self, ex, name):
        t = self.ctx.ghost["tree"]
        if name == "value":
            return SBool(t.value[self.e])
        if name == "get_child":
            def get_child(tok):
                if isinstance(tok, STok) and self.via is not None and z3.eq(tok.p, self.via[0]) and z3.eq(z3.simplify(tok.i), z3.simplify(self.via[1])):
                    child = PFX(tok.p, tok.i + 1)
                    t.exists = z3.Store(t.exists, child, True)           # setdefault: created if missing, otherwise the existing node
                    return SNode(self.ctx, child, (tok.p, tok.i + 1))
                raise Unsupported("get_child with a name that is not the next component of the path being walked")
            return NativeStub(get_child, "node.get_child")
        if name == "children":
            return SChildren(self.ctx, self.e)
        if name == "name":
            return ("name-of", self.e)
        raise Unsupported(f"node.{name}")

    def sym_setattr(self, ex, name, v):
        t = self.ctx.ghost["tree"]
        if name == "value" and v is True:
            t.value = z3.Store(t.value, self.e, True)
            return
        raise Unsupported(f"node.{name} = {v!r}")


class SChildren(Sym):
    def __init__(self, ctx, e):
        self.ctx, self.e = ctx, e

    def sym_truth(self, ex):
        return NCH(self.e) > 0

    def sym_getattr(self, ex, name):
        if name == "values":
            return NativeStub(lambda: SChildSeq(self.ctx, self.e), "dict.values")
        raise Unsupported(f"children.{name}")


class SChildSeq(Sym):
    def __init__(self, ctx, e):
        self.ctx, self.e = ctx, e

    def sym_iter(self, ex):
        def at(interp, i):
            g = interp.ctx.ghost
            g["child_i"], g["yielded_now"] = i, []
            return SNode(self.ctx, CHILD(self.e, i))
        return CutSeq(NCH(self.e), at, label="children")


class STok(Sym):
    """the i-th component of path p"""

    def __init__(self, p, i):
        self.p, self.i = p, i

    def sym_eq(self, ex, other):
        # a component may be any text, also '' or '.' (a custom path specification such as 'x//{a}' or './a/{a}' produces them)
        if isinstance(other, str):
            return SBool(TOK_IS(self.p, self.i if isinstance(self.i, z3.ExprRef) else z3.IntVal(self.i), z3.StringVal(other)))
        raise Unsupported(f"== on STok vs {type(other).__name__}")

    def sym_hashable(self):
        return True


class SComponents(Sym):
    def __init__(self, p):
        self.p = p

    def sym_iter(self, ex):
        return CutSeq(NTK(self.p), lambda interp, i: STok(self.p, i), label="components")


class SPathStr(Sym):
    def __init__(self, p):
        self.p = p

    def sym_getattr(self, ex, name):
        if name == "split":
            return NativeStub(lambda sep: SComponents(self.p) if sep == os.sep else (_ for _ in ()).throw(Unsupported("split separator")), "str.split")
        raise Unsupported(f"str.{name}")


class TreeCtx(Ctx):
    def instantiate(self, interp, rc, args, kw):
        if rc.name == "_Node" and not args and not kw:
            t = self.ghost["tree"]
            self.ghost["roots_made"] = self.ghost.get("roots_made", 0) + 1
            t.exists = z3.Store(t.exists, ROOT, True)
            return SNode(self, ROOT, None)
        return NotImplemented


def walked(P, upto, x):
    k = z3.Int("wk")
    return z3.Exists([k], z3.And(0 <= k, k <= upto, k <= NTK(P), x == PFX(P, k)))


class ColorPath(Contract):
    target = f"{LV}._color_path"
    properties = ("C17",)
    ctx_class = TreeCtx

    def loops(self, case):
        x = z3.Const("cx", TP)

        def inv(interp, fr, i, seq):
            g = interp.ctx.ghost
            t, t0, P = g["tree"], g["tree0"], g["P"]
            return z3.ForAll([x], z3.And(t.value[x] == z3.Or(t0.value[x], walked(P, i, x)), t.exists[x] == z3.Or(t0.exists[x], walked(P, i, x))))

        def hv(interp, fr, tag):
            g = interp.ctx.ghost
            g["tree"] = TreeState(interp.ex, tag.replace("$", ""))

        def hv_root(interp, fr, tag):
            return SNode(interp.ctx, z3.Const(interp.ex.fresh_name("cur"), TP), None)

        def inv_full(interp, fr, i, seq):
            cur = interp.lookup(fr, "root")
            P = interp.ctx.ghost["P"]
            ok = isinstance(cur, SNode)
            if ok and cur.via is None:
                cur.via = (P, i)          # the invariant ties the loop variable to the path: root is the node of the first i components
            return z3.And(inv(interp, fr, i, seq), cur.e == PFX(P, i) if ok else z3.BoolVal(False))
        return {"components": LoopSpec("components", inv_full, havoc={"$tree": hv, "root": hv_root}, scratch=("name",), heap_frame=lambda interp, fr, w: None)}

    def setup(self, interp, case):
        ex, g = interp.ex, interp.ctx.ghost
        P = z3.Const("P", TP)
        p = z3.Const("ap", TP)
        ex.assume(z3.And(z3.ForAll([p], z3.And(NTK(p) >= 0, PFX(p, 0) == ROOT, PFX(p, NTK(p)) == p))))
        g["tree"] = TreeState(ex, "pre")
        g["tree0"] = g["tree"]
        t0 = TreeState(ex, "snap")
        t0.exists, t0.value = g["tree"].exists, g["tree"].value
        g["tree0"] = t0
        g["P"] = P
        ex.assume(t0.exists[ROOT])
        return [SNode(interp.ctx, ROOT, (P, z3.IntVal(0))), SComponents(P)], {}, {"P": P}

    def post(self, interp, case, pre, outcome):
        ex, g = interp.ex, interp.ctx.ghost
        t, t0, P = g["tree"], g["tree0"], pre["P"]
        x = z3.Const("px", TP)
        if outcome[0] != "return":
            ex.oblige(self.oname("raises:nothing"), False, note=repr(outcome[1]))
            return
        ex.oblige(self.oname("ensures:exactly_the_root_and_every_node_along_the_path_become_coloured,_nothing_else_changes"),
                  z3.ForAll([x], t.value[x] == z3.Or(t0.value[x], walked(P, NTK(P), x))))
        ex.oblige(self.oname("ensures:missing_nodes_along_the_path_are_created,_no_other_node_appears"),
                  z3.ForAll([x], t.exists[x] == z3.Or(t0.exists[x], walked(P, NTK(P), x))))


class BuildTree(Contract):
    target = f"{LV}._build_tree"
    properties = ("C17",)
    ctx_class = TreeCtx

    def loops(self, case):
        x = z3.Const("bx", TP)
        j = z3.Int("bj")
        PATHS, NP = z3.Function("PATH_AT", z3.IntSort(), TP), z3.Int("n_paths")

        def upto(i):
            return lambda y: z3.Or(y == ROOT, z3.Exists([j], z3.And(0 <= j, j < i, walked(PATHS(j), NTK(PATHS(j)), y))))

        def inv_paths(interp, fr, i, seq):
            t = interp.ctx.ghost["tree"]
            return z3.ForAll([x], z3.And(t.exists[x] == upto(i)(x), z3.Not(t.value[x])))

        def inv_comp(interp, fr, k, seq):
            g = interp.ctx.ghost
            t, m = g["tree"], g["path_i"]
            node = interp.lookup(fr, "node")
            P = PATHS(m)
            ok = isinstance(node, SNode)
            if ok and node.via is None:
                node.via = (P, k)
            return z3.And(z3.ForAll([x], z3.And(t.exists[x] == z3.Or(upto(m)(x), walked(P, k, x)), z3.Not(t.value[x]))), node.e == PFX(P, k) if ok else z3.BoolVal(False))

        def hv(interp, fr, tag):
            interp.ctx.ghost["tree"] = TreeState(interp.ex, tag.replace("$", ""))

        def hv_node(interp, fr, tag):
            return SNode(interp.ctx, z3.Const(interp.ex.fresh_name("node"), TP), None)
        self._paths = (PATHS, NP, upto)
        return {"paths": LoopSpec("paths", inv_paths, havoc={"$tree": hv}, scratch=("path", "node", "p"), heap_frame=lambda interp, fr, w: None),
                "components": LoopSpec("components", inv_comp, havoc={"$tree": hv, "node": hv_node}, scratch=("p",), heap_frame=lambda interp, fr, w: None)}

    def setup(self, interp, case):
        ex, g = interp.ex, interp.ctx.ghost
        self.loops(case)
        PATHS, NP, _ = self._paths
        p = z3.Const("ap", TP)
        ex.assume(z3.And(NP >= 0, z3.ForAll([p], z3.And(NTK(p) >= 0, PFX(p, 0) == ROOT, PFX(p, NTK(p)) == p))))
        t = TreeState(ex, "pre")
        x = z3.Const("sx", TP)
        ex.assume(z3.ForAll([x], z3.And(z3.Not(t.exists[x]), z3.Not(t.value[x]))))     # no tree yet
        g["tree"] = t

        class SPaths(Sym):
            def sym_iter(self_, ex_):
                def at(interp_, i):
                    interp_.ctx.ghost["path_i"] = i
                    return SPathStr(PATHS(i))
                return CutSeq(NP, at, label="paths")
        return [SPaths()], {}, {}

    def post(self, interp, case, pre, outcome):
        ex, g = interp.ex, interp.ctx.ghost
        PATHS, NP, upto = self._paths
        t = g["tree"]
        x = z3.Const("px", TP)
        if outcome[0] != "return":
            ex.oblige(self.oname("raises:nothing"), False, note=repr(outcome[1]))
            return
        r = outcome[1]
        ex.oblige(self.oname("ensures:returns_the_one_root_node"), z3.BoolVal(isinstance(r, SNode) and g.get("roots_made") == 1) if not isinstance(r, SNode) else z3.And(r.e == ROOT, z3.BoolVal(g.get("roots_made") == 1)))
        ex.oblige(self.oname("ensures:the_tree_has_exactly_the_root_and_every_prefix_of_every_given_path,_all_uncoloured"),
                  z3.ForAll([x], z3.And(t.exists[x] == upto(NP)(x), z3.Not(t.value[x]))))


class FindDeadBranches(Contract):
    """structural induction on the tree: the recursive call on a child is replaced by the contract itself (one opaque batch: all dead branches
    of the child's subtree, built on the branch handed down)"""
    target = f"{LV}._find_dead_branches"
    properties = ("C17",)
    ctx_class = TreeCtx

    def cases(self):
        return [{"branch": "None"}, {"branch": "given"}]

    @staticmethod
    def rec(interp, b):
        g = interp.ctx.ghost
        g.setdefault("rec_calls", []).append((b["root"], b.get("branch")))
        return [("all-dead-branches-below", b["root"], b.get("branch"))]

    recursive_stub = rec

    def loops(self, case):
        def body(interp, fr, w):
            ex, g = interp.ex, interp.ctx.ghost
            ys, i = g["yielded_now"], g["child_i"]
            here = g["here"]
            want_branch = g["branch_here"]
            ok = len(ys) == 1 and isinstance(ys[0], tuple) and ys[0][0] == "all-dead-branches-below" and isinstance(ys[0][1], SNode) and isinstance(ys[0][2], list) \
                and len(ys[0][2]) == len(want_branch) and all(a is b_ for a, b_ in zip(ys[0][2], want_branch))
            ex.oblige(self.oname("loop[children]:the_dead_branches_of_every_child's_subtree_are_passed_on,_built_on_this_node's_branch"),
                      z3.And(z3.BoolVal(bool(ok)), ys[0][1].e == CHILD(here, i)) if ok else z3.BoolVal(False), note=repr(ys)[:200])
        return {"children": LoopSpec("children", lambda interp, fr, i, seq: z3.BoolVal(True), scratch=("child",), heap_frame=body)}

    def setup(self, interp, case):
        ex, g = interp.ex, interp.ctx.ghost
        p = z3.Const("ap", TP)
        ex.assume(z3.ForAll([p], NCH(p) >= 0))
        g["tree"] = TreeState(ex, "pre")
        n = z3.Const("node_here", TP)
        g["here"] = n
        node = SNode(interp.ctx, n)
        anc = SNode(interp.ctx, z3.Const("ancestor", TP))
        g["out"] = []
        g["yielded_now"] = []
        if case["branch"] == "None":
            g["branch_here"] = []
            return [node], {}, {"node": node}
        g["branch_here"] = [anc, node]
        return [node, [anc]], {}, {"node": node}

    def yield_hook(self, interp, case, pre):
        def hook(v):
            g = interp.ctx.ghost
            g["out"].append(v)
            g["yielded_now"].append(v)
        return hook

    def post(self, interp, case, pre, outcome):
        ex, g = interp.ex, interp.ctx.ghost
        if outcome[0] != "return":
            ex.oblige(self.oname("raises:nothing"), False, note=repr(outcome[1]))
            return
        t, here, want = g["tree"], g["here"], g["branch_here"]
        own = [y for y in g["out"] if isinstance(y, list)]
        ok_shape = len(own) <= 1 and all(len(y) == len(want) and all(a is b for a, b in zip(y, want)) for y in own) and (not own or g["out"][-1] is own[0])
        ex.oblige(self.oname("ensures:this_node's_own_branch_is_reported_iff_the_node_is_uncoloured,_after_everything_below_it"),
                  z3.And(z3.BoolVal(bool(ok_shape)), z3.BoolVal(len(own) == 1) == z3.Not(t.value[here])), note=repr(g["out"])[:200])
        ex.oblige(self.oname("ensures:the_top-level_call_starts_from_the_empty_branch,_a_nested_one_appends_its_node"),
                  z3.BoolVal(want == [] if case["branch"] == "None" else (len(want) == 2 and want[1] is pre["node"])))


CONTRACTS = [ColorPath(), BuildTree(), FindDeadBranches()]
